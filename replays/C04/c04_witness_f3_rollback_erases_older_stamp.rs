// Counterexample for property C04, obligation O3, harness `verif_slice_oracle_file::verif_kani::c04_witness_f3_rollback_erases_older_stamp`
// found by: cargo kani -Z stubbing --exact --harness verif_slice_oracle_file::verif_kani::c04_witness_f3_rollback_erases_older_stamp --target-dir /var/tmp/verif/C04-24191/tgt0
// failed checks: "a transaction that overlapped a committed writer of its key was allowed to commit after an unrelated rollback" @ src/verif/slices/../oracle_kani.rs:358:2 in function verif_slice_oracle_file::verif_kani::rollback_then_late_check
// native replay (real, unsliced, unstubbed code; --cfg verif_replay): dev: reproduced a transaction that overlapped a committed writer of its key was allowed to commit after an unrelated rollback
// To replay: /verif/bin/check C04 --replay /verif/replays/C04/c04_witness_f3_rollback_erases_older_stamp.rs
// (appends this test to harness/oracle_kani.rs attached to src/oracle.rs of a scratch copy of /repo and runs
//  `RUSTFLAGS="--cfg verif_replay" cargo kani playback -Z concrete-playback -- <test>`)
// VERIF-HARNESS: c04_witness_f3_rollback_erases_older_stamp
/// Test generated for harness `verif_slice_oracle_file::verif_kani::c04_witness_f3_rollback_erases_older_stamp` 
///
/// Check for `assertion`: ""a transaction that overlapped a committed writer of its key was allowed to commit after an unrelated rollback""

#[test]
fn kani_concrete_playback_c04_witness_f3_rollback_erases_older_stamp_1550003298866989673() {
    let concrete_vals: Vec<Vec<u8>> = vec![
        // 511ul
        vec![255, 1, 0, 0, 0, 0, 0, 0],
        // 3ul
        vec![3, 0, 0, 0, 0, 0, 0, 0],
        // 514ul
        vec![2, 2, 0, 0, 0, 0, 0, 0],
        // 3ul
        vec![3, 0, 0, 0, 0, 0, 0, 0],
        // 255ul
        vec![255, 0, 0, 0, 0, 0, 0, 0],
        // 1
        vec![1],
        // 1
        vec![1],
        // 1
        vec![1],
        // 1
        vec![1],
        // 1
        vec![1],
        // 1
        vec![1],
        // 1
        vec![1],
        // 1
        vec![1],
        // 1
        vec![1],
    ];
    kani::concrete_playback_run(concrete_vals, c04_witness_f3_rollback_erases_older_stamp);
}
