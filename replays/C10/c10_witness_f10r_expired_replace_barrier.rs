// Counterexample for property C10, obligation O2, harness `iter::verif_slice_compaction_body::verif_kani::c10_witness_f10r_expired_replace_barrier`
// found by: cargo kani -Z stubbing --exact --harness iter::verif_slice_compaction_body::verif_kani::c10_witness_f10r_expired_replace_barrier --target-dir /var/tmp/verif/C10-21920/tgt0
// failed checks: "F10r: version erased by a replace outlives the replace (dropped by retention) because a snapshot holds it" @ src/verif/slices/../iter_compaction_kani.rs:502:2 in function iter::verif_slice_compaction_body::verif_kani::c10_witness_f10r_expired_replace_barrier
// native replay (real, unsliced, unstubbed code; --cfg verif_replay): dev: reproduced F10r: version erased by a replace outlives the replace (dropped by retention) because a snapshot holds it
// To replay: /verif/bin/check C10 --replay /verif/replays/C10/c10_witness_f10r_expired_replace_barrier.rs
// (appends this test to harness/iter_compaction_kani.rs attached to src/iter.rs of a scratch copy of /repo and runs
//  `RUSTFLAGS="--cfg verif_replay" cargo kani playback -Z concrete-playback -- <test>`)
// VERIF-HARNESS: c10_witness_f10r_expired_replace_barrier
/// Test generated for harness `iter::verif_slice_compaction_body::verif_kani::c10_witness_f10r_expired_replace_barrier` 
///
/// Check for `assertion`: ""F10r: version erased by a replace outlives the replace (dropped by retention) because a snapshot holds it""

#[test]
fn kani_concrete_playback_c10_witness_f10r_expired_replace_barrier_11207795389347155096() {
    let concrete_vals: Vec<Vec<u8>> = vec![
        // 3ul
        vec![3, 0, 0, 0, 0, 0, 0, 0],
        // 9ul
        vec![9, 0, 0, 0, 0, 0, 0, 0],
        // 4ul
        vec![4, 0, 0, 0, 0, 0, 0, 0],
        // 2ul
        vec![2, 0, 0, 0, 0, 0, 0, 0],
        // 1ul
        vec![1, 0, 0, 0, 0, 0, 0, 0],
        // 0
        vec![0],
        // 3
        vec![3],
        // 0
        vec![0],
        // 3
        vec![3],
        // 12898309334936584181ul
        vec![245, 255, 255, 127, 0, 0, 0, 179],
        // 12754194146860728311ul
        vec![247, 255, 255, 127, 0, 0, 0, 177],
        // 10592466325722889922ul
        vec![194, 254, 255, 127, 0, 0, 0, 147],
        // 10592466325722889920ul
        vec![192, 254, 255, 127, 0, 0, 0, 147],
        // 1ul
        vec![1, 0, 0, 0, 0, 0, 0, 0],
        // 3ul
        vec![3, 0, 0, 0, 0, 0, 0, 0],
        // 15ul
        vec![15, 0, 0, 0, 0, 0, 0, 0],
        // 14ul
        vec![14, 0, 0, 0, 0, 0, 0, 0],
        // 0
        vec![0],
        // 1
        vec![1],
        // 1ul
        vec![1, 0, 0, 0, 0, 0, 0, 0],
        // 14267403621657214966ul
        vec![246, 255, 255, 127, 0, 0, 0, 198],
    ];
    kani::concrete_playback_run(concrete_vals, c10_witness_f10r_expired_replace_barrier);
}
