// Counterexample for property C10, obligation O1, harness `iter::verif_slice_compaction_body::verif_kani::c10_retention_never_loses_live_version_n3_s1`
// found by: cargo kani -Z stubbing --exact --harness iter::verif_slice_compaction_body::verif_kani::c10_retention_never_loses_live_version_n3_s1 --target-dir /var/tmp/verif/C10-4350/tgt0
// failed checks: "version inside the retention window lost without a hard delete / replace above it" @ src/verif/slices/../iter_compaction_kani.rs:379:4 in function iter::verif_slice_compaction_body::verif_kani::history_retained
// native replay (real, unsliced, unstubbed code; --cfg verif_replay): dev: reproduced version inside the retention window lost without a hard delete / replace above it
// To replay: /verif/bin/check C10 --replay /verif/replays/C10/c10_retention_never_loses_live_version_n3_s1.rs
// (appends this test to harness/iter_compaction_kani.rs attached to src/iter.rs of a scratch copy of /repo and runs
//  `RUSTFLAGS="--cfg verif_replay" cargo kani playback -Z concrete-playback -- <test>`)
// VERIF-HARNESS: c10_retention_never_loses_live_version_n3_s1
/// Test generated for harness `iter::verif_slice_compaction_body::verif_kani::c10_retention_never_loses_live_version_n3_s1` 
///
/// Check for `assertion`: ""version inside the retention window lost without a hard delete / replace above it""

#[test]
fn kani_concrete_playback_c10_retention_never_loses_live_version_n3_s1_6418051683477833399() {
    let concrete_vals: Vec<Vec<u8>> = vec![
        // 3ul
        vec![3, 0, 0, 0, 0, 0, 0, 0],
        // 3ul
        vec![3, 0, 0, 0, 0, 0, 0, 0],
        // 2ul
        vec![2, 0, 0, 0, 0, 0, 0, 0],
        // 1ul
        vec![1, 0, 0, 0, 0, 0, 0, 0],
        // 14ul
        vec![14, 0, 0, 0, 0, 0, 0, 0],
        // 2
        vec![2],
        // 3
        vec![3],
        // 0
        vec![0],
        // 0
        vec![0],
        // 16289555020465045503ul
        vec![255, 255, 255, 63, 252, 31, 16, 226],
        // 16249127078497091585ul
        vec![1, 0, 0, 128, 252, 126, 128, 225],
        // 7712625468104507391ul
        vec![255, 255, 255, 255, 255, 191, 8, 107],
        // 2526660113410815997ul
        vec![253, 247, 255, 127, 252, 127, 16, 35],
        // 1ul
        vec![1, 0, 0, 0, 0, 0, 0, 0],
        // 3ul
        vec![3, 0, 0, 0, 0, 0, 0, 0],
        // 3ul
        vec![3, 0, 0, 0, 0, 0, 0, 0],
        // 2ul
        vec![2, 0, 0, 0, 0, 0, 0, 0],
        // 0
        vec![0],
        // 1
        vec![1],
        // 0ul
        vec![0, 0, 0, 0, 0, 0, 0, 0],
        // 16362281118646401021ul
        vec![253, 247, 255, 127, 252, 127, 18, 227],
    ];
    kani::concrete_playback_run(concrete_vals, c10_retention_never_loses_live_version_n3_s1);
}
