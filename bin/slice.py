#!/usr/bin/env python3
"""Source slicer for the overlay (DESIGN 3.3).

Everything here works on the *current text* under the overlay copy of /repo/src.
Items are located by name + brace matching, never by line number.  A locator that
does not find its item raises SliceError -> the check exits 2 (BUILD-ERROR), never 0.
"""
import hashlib
import re


class SliceError(Exception):
    pass


def _skip_string(s, i):
    """s[i] == '"' ; return index just past the closing quote."""
    i += 1
    n = len(s)
    while i < n:
        c = s[i]
        if c == '\\':
            i += 2
            continue
        if c == '"':
            return i + 1
        i += 1
    raise SliceError("unterminated string literal")


def _skip_raw_string(s, i):
    """s[i] == 'r' followed by #*" ; return index past the end or None if not a raw string."""
    j = i + 1
    hashes = 0
    while j < len(s) and s[j] == '#':
        hashes += 1
        j += 1
    if j >= len(s) or s[j] != '"':
        return None
    end = s.find('"' + '#' * hashes, j + 1)
    if end < 0:
        raise SliceError("unterminated raw string")
    return end + 1 + hashes


def _skip_char_or_lifetime(s, i):
    """s[i] == "'" ; char literal or lifetime."""
    n = len(s)
    if i + 1 < n and s[i + 1] == '\\':
        j = s.find("'", i + 2)
        # '\'' case
        if j == i + 2:
            j = s.find("'", i + 3)
        if j < 0:
            raise SliceError("unterminated char literal")
        return j + 1
    if i + 2 < n and s[i + 2] == "'":
        return i + 3
    # multi-byte char literal like '→'
    m = re.match(r"'[^'\\\n]'", s[i:i + 8])
    if m:
        return i + m.end()
    return i + 1  # lifetime


def match_brace(s, open_idx):
    """s[open_idx] == '{' ; return index of the matching '}'."""
    if s[open_idx] != '{':
        raise SliceError("match_brace: not at '{'")
    depth = 0
    i = open_idx
    n = len(s)
    while i < n:
        c = s[i]
        if c == '/' and i + 1 < n and s[i + 1] == '/':
            j = s.find('\n', i)
            i = n if j < 0 else j + 1
            continue
        if c == '/' and i + 1 < n and s[i + 1] == '*':
            d = 1
            i += 2
            while i < n and d > 0:
                if s.startswith('/*', i):
                    d += 1
                    i += 2
                elif s.startswith('*/', i):
                    d -= 1
                    i += 2
                else:
                    i += 1
            continue
        if c == '"':
            i = _skip_string(s, i)
            continue
        if c == 'r' and i + 1 < n and s[i + 1] in '#"' and (i == 0 or not (s[i - 1].isalnum() or s[i - 1] == '_')):
            j = _skip_raw_string(s, i)
            if j is not None:
                i = j
                continue
        if c == 'b' and i + 1 < n and s[i + 1] == '"' and (i == 0 or not (s[i - 1].isalnum() or s[i - 1] == '_')):
            i = _skip_string(s, i + 1)
            continue
        if c == "'":
            i = _skip_char_or_lifetime(s, i)
            continue
        if c == '{':
            depth += 1
        elif c == '}':
            depth -= 1
            if depth == 0:
                return i
        i += 1
    raise SliceError("unbalanced braces")


def find_item(src, header_re, start=0):
    """Locate an item whose header matches header_re (regex, MULTILINE) and that has a
    brace-delimited body.  Returns (item_start, body_open, body_close) indexes; item_start
    includes preceding attribute / doc-comment lines."""
    m = re.compile(header_re, re.M).search(src, start)
    if not m:
        raise SliceError("item not found: %s" % header_re)
    # the body's '{' is the first '{' after the header match that is not inside <...> / (...) -
    # headers here never contain braces, so the next '{' is it.
    ob = src.find('{', m.end() - 1 if src[m.end() - 1] == '{' else m.end())
    if ob < 0:
        raise SliceError("no body for: %s" % header_re)
    cb = match_brace(src, ob)
    # extend start backwards over attributes and doc comments
    s = m.start()
    while True:
        ls = src.rfind('\n', 0, s - 1) + 1 if s > 0 else 0
        line = src[ls:s].strip() if ls < s else ''
        prev_ls = src.rfind('\n', 0, ls - 1) + 1 if ls > 0 else 0
        prev = src[prev_ls:ls].strip()
        if prev.startswith('///') or prev.startswith('#['):
            s = prev_ls
            continue
        break
    return s, ob, cb


def item_text(src, header_re, start=0):
    s, ob, cb = find_item(src, header_re, start)
    return src[s:cb + 1]


def body_text(src, header_re, start=0):
    s, ob, cb = find_item(src, header_re, start)
    return src[ob + 1:cb]


def strip_test_modules(src):
    """Remove `#[cfg(test)] mod NAME { ... }` blocks and `#[cfg(test)]`-gated items with bodies."""
    out = src
    while True:
        m = re.search(r'#\[cfg\(test\)\]\s*(pub(\([a-z]+\))?\s+)?mod\s+\w+\s*\{', out)
        if not m:
            break
        ob = out.find('{', m.start())
        cb = match_brace(out, ob)
        out = out[:m.start()] + out[cb + 1:]
    return out


def sub_required(text, pattern, repl, what, count_min=1, flags=0):
    new, n = re.subn(pattern, repl, text, flags=flags)
    if n < count_min:
        raise SliceError("substitution '%s' matched %d time(s), need >= %d" % (what, n, count_min))
    return new, n


def sha(text):
    return hashlib.sha256(text.encode()).hexdigest()[:16]
