// Counterexample for property C01, obligation O4, harness `verif_slice_snapshot_tracker::verif_kani::c01_tracker_counts_readers`
// found by: cargo kani -Z stubbing -Z concrete-playback --concrete-playback=print --exact --harness verif_slice_snapshot_tracker::verif_kani::c01_tracker_counts_readers --target-dir /var/tmp/verif/C01-14899/tgt0
// failed checks: "horizon of a live reader is missing from the snapshot registry" @ src/verif/slices/../snapshot_tracker_kani.rs:30:4 in function verif_slice_snapshot_tracker::verif_kani::check_list
// native replay (real, unsliced, unstubbed code; --cfg verif_replay): dev: reproduced horizon of a live reader is missing from the snapshot registry
// To replay: /verif/bin/check C01 --replay /verif/replays/C01/c01_tracker_counts_readers.rs
// (appends this test to harness/snapshot_tracker_kani.rs attached to src/snapshot.rs of a scratch copy of /repo and runs
//  `RUSTFLAGS="--cfg verif_replay" cargo kani playback -Z concrete-playback -- <test>`)
// VERIF-HARNESS: c01_tracker_counts_readers
/// Test generated for harness `verif_slice_snapshot_tracker::verif_kani::c01_tracker_counts_readers` 
///
/// Check for `assertion`: ""horizon of a live reader is missing from the snapshot registry""

#[test]
fn kani_concrete_playback_c01_tracker_counts_readers_13210870015691320499() {
    let concrete_vals: Vec<Vec<u8>> = vec![
        // 3ul
        vec![3, 0, 0, 0, 0, 0, 0, 0],
        // 3ul
        vec![3, 0, 0, 0, 0, 0, 0, 0],
        // 3ul
        vec![3, 0, 0, 0, 0, 0, 0, 0],
        // 1
        vec![1],
        // 1
        vec![1],
        // 0
        vec![0],
    ];
    kani::concrete_playback_run(concrete_vals, c01_tracker_counts_readers);
}
