// C04-O5: ActiveTxnTracker::oldest() is the minimum start sequence over the still-registered
// transactions (the GC watermark CommitPipeline::commit hands to CommitOracle::publish).
//
// Under Kani: child of slice `txn_tracker_file` (whole src/tracker.rs against verif_models::SkipSet).
// Under --cfg verif_replay: child of the real src/tracker.rs.
use super::*;

#[kani::proof]
#[kani::unwind(7)]
fn c04_oldest_active_is_min_of_live_starts() {
	let t = Arc::new(ActiveTxnTracker::new());
	let a: u64 = kani::any();
	let b: u64 = kani::any();
	let c: u64 = kani::any();
	kani::assume(a <= 5 && b <= 5 && c <= 5);
	let drop_a: bool = kani::any();
	let drop_b: bool = kani::any();
	let drop_c: bool = kani::any();
	let twice: bool = kani::any();
	let mut ga = t.register(a);
	let gb = t.register(b);
	let gc = t.register(c);
	if drop_a {
		ga.release();
		if twice {
			ga.release(); // idempotent
		}
	}
	let gb = if drop_b {
		drop(gb);
		None
	} else {
		Some(gb)
	};
	let gc = if drop_c {
		drop(gc);
		None
	} else {
		Some(gc)
	};
	let oldest = t.oldest();
	#[cfg(verif_replay)]
	println!("REPLAY txn tracker starts {a},{b},{c} dropped {drop_a},{drop_b},{drop_c} -> oldest {:?}", oldest);
	let mut want: Option<u64> = None;
	let live = [(a, !drop_a), (b, !drop_b), (c, !drop_c)];
	let mut i = 0;
	while i < 3 {
		if live[i].1 {
			want = match want {
				None => Some(live[i].0),
				Some(w) => Some(if live[i].0 < w { live[i].0 } else { w }),
			};
		}
		i += 1;
	}
	assert!(oldest == want, "oldest() is not the minimum start sequence of the live transactions");
	kani::cover!(a == b && drop_a && !drop_b, "two transactions share a start and one finishes");
	kani::cover!(want.is_none(), "no live transaction");
	kani::cover!(!drop_a && !drop_b && !drop_c && c < a && c < b, "last registered is the oldest");
	core::mem::forget(ga);
	core::mem::forget(gb);
	core::mem::forget(gc);
	core::mem::forget(t);
}
