"""Registry: properties -> obligations -> harnesses; units (harness module + where it is attached);
slice generators.  Pure data + the slice generator functions (which read the overlay's source text)."""
import os
import re


class H:
    def __init__(self, name, unit, prop, obligation, claim, functions, symbolic, bounds, unwind,
                 tiers=('quick', 'thorough'), timeout=300, timeout_thorough=None, mem_gb=14, min_covers=1,
                 assumes=(), witness_of=None, extra_args=None, also=()):
        self.name = name
        self.unit = unit
        self.prop = prop
        self.also = tuple(also)  # other properties this harness also serves
        self.obligation = obligation
        self.claim = claim
        self.functions = list(functions)
        self.symbolic = symbolic
        self.bounds = bounds
        self.unwind = unwind
        self.tiers = tiers
        self.timeout = timeout
        self.timeout_thorough = timeout_thorough or timeout
        self.mem_gb = mem_gb
        self.min_covers = min_covers
        self.assumes = list(assumes)
        self.witness_of = witness_of
        self.extra_args = extra_args

    def timeout_for(self, tier):
        return self.timeout_thorough if tier == 'thorough' else self.timeout

    def fq_name(self):
        return UNITS[self.unit]['module'] + '::' + self.name


# unit: a harness source file and the module it becomes a child of
UNITS = {
    'comparator': {'harness_file': 'comparator_kani.rs', 'attach': 'src/comparator.rs',
                   'module': 'comparator::verif_kani'},
}

SLICES = {}

HARNESSES = []
PROPERTIES = {}


def harnesses_for(pid, tier):
    return [h for h in HARNESSES if (h.prop == pid or pid in h.also) and tier in h.tiers]


def find_harness(name):
    for h in HARNESSES:
        if h.name == name:
            return h
    raise KeyError(name)


def _add(*hs):
    HARNESSES.extend(hs)


# =====================================================================================  C13
PROPERTIES['C13'] = {
    'title': 'Sorted tables return exactly what was written (ordering lemmas the table format rests on)',
    'bounds': 'user keys <= 3 bytes (quick) / <= 4 bytes (thorough), every byte value; codecs: every 64-bit field value',
    'outside': 'Table::get / TableIterator through index partitions, block cache and files; block prefix compression '
               'with symbolic keys; InternalKeyComparator::separator/successor (heap vectors: OOM); bloom filter; '
               'compression; keys longer than the bound',
    'assumptions': ['a < b under the bytewise order is the only precondition of separator',
                    'std::fmt::format is stubbed where reachable (message text is not part of the property)'],
}
_add(
    H('c13_bytewise_separator_in_range_3', 'comparator', 'C13', 'O1',
      'a < b  =>  a <= separator(a,b) < b and len(separator) <= len(a)',
      ['BytewiseComparator::separator', 'BytewiseComparator::compare'],
      'a, b: byte strings of symbolic length 0..=3, all byte values', 'len(a),len(b) <= 3', 6, timeout=240),
    H('c13_bytewise_separator_in_range_4', 'comparator', 'C13', 'O1',
      'a < b  =>  a <= separator(a,b) < b and len(separator) <= len(a)',
      ['BytewiseComparator::separator', 'BytewiseComparator::compare'],
      'a, b: byte strings of symbolic length 0..=4, all byte values', 'len(a),len(b) <= 4', 7,
      tiers=('thorough',), timeout=900),
    H('c13_bytewise_successor_ge_3', 'comparator', 'C13', 'O2',
      'successor(k) >= k and len(successor) <= len(k)', ['BytewiseComparator::successor'],
      'k: byte string of symbolic length 0..=3', 'len(k) <= 3', 6, timeout=240, min_covers=2),
    H('c13_bytewise_successor_ge_4', 'comparator', 'C13', 'O2',
      'successor(k) >= k and len(successor) <= len(k)', ['BytewiseComparator::successor'],
      'k: byte string of symbolic length 0..=4', 'len(k) <= 4', 7, tiers=('thorough',), timeout=900, min_covers=2),
)

PROPERTIES['C13'].update({
    'level_text': 'Bounded model checking of the byte-order lemmas the table index relies on: for every pair of user keys '
                  'up to the length bound the real BytewiseComparator::separator/successor stay inside [a,b) / >= k, and the '
                  'footer / block-handle codecs round-trip for every field value. This is the part of "tables return what was '
                  'written" that depends on byte-level relations between neighbouring keys, which unit tests sample; whole-table '
                  'reads are outside what CBMC reaches here.',
    'level_note': 'Bounded: keys <= 3/4 bytes. Trusted: Kani/CBMC/CaDiCaL. Not covered: Table::get, TableIterator, block '
                  'iterator with symbolic keys, InternalKeyComparator wrappers, bloom, compression.',
})

# =====================================================================================  not applicable
NOT_APPLICABLE = {
    'C02': 'durability is decided by the order of write/fsync/rename/unlink against a file system and by thread schedules; Kani models neither and those calls are FFI (DESIGN 6)',
    'C03': 'needs WAL Writer -> cut -> Reader::next under CBMC, which did not terminate in six formulations; all other crash instants are std::fs sequences (DESIGN 6)',
    'C08': 'write-set is BTreeMap<Vec<u8>,Vec<Entry>>; a one-key five-call program did not finish in 500 s and slicing cannot remove the data-dependent Vec<Entry> (DESIGN 6)',
    'C09': 'cursor is a four-layer stack of boxed iterators over heap buffers; the real stack (27 GB / 40 min) and single-layer slices over array models did not terminate (DESIGN 6)',
    'C11': 'vlog separation, fsync, cleanup_obsolete_files and VLog::get are std::fs on concrete Files; the pointer codec alone does not decide the property (DESIGN 6)',
    'C14': 'checkpoint/restore is directory copying plus re-initialisation of Core: std::fs and threads, outside Kani (DESIGN 6)',
    'C17': 'termination under all thread interleavings: Kani has no concurrency or liveness support (DESIGN 6)',
    'C18': 'BPlusTree runs through quick_cache (FFI + parking_lot) and 4 KiB page loops; its loop-free arithmetic does not decide ordered-map behaviour (DESIGN 6)',
    'C19': 'flock, process death and two openers are operating-system behaviour behind FFI (DESIGN 6)',
}
