// Harnesses for the compaction retention decision (C01-O1, C06-O1, C10-O1).
//
// Under Kani this file is a child module of the generated slice `compaction_body`
// (the text of CompactionIterator::process_accumulated_versions compiled against
// verif_models::VersArr / OutRec), itself a child of src/iter.rs.
// Under `--cfg verif_replay` (native replay of a counterexample) it is attached to the real
// src/iter.rs and drives the REAL, unsliced CompactionIterator over an in-memory child iterator.
#[cfg(not(verif_replay))]
use super::super::*;
#[cfg(verif_replay)]
use super::*;

use crate::clock::LogicalClock;
use crate::InternalKeyKind;

// array sizes are const parameters: N versions x S snapshots (4 x 3 in the quick tier, 6 x 4 in thorough)

#[derive(Debug)]
struct FixedClock(u64);
impl LogicalClock for FixedClock {
	fn now(&self) -> u64 {
		self.0
	}
}

#[derive(Clone, Copy)]
pub(crate) struct Scenario<const MAXN: usize, const MAXS: usize> {
	n: usize,
	seq: [u64; MAXN],
	kind: [u8; MAXN],
	ts: [u64; MAXN],
	ns: usize,
	snaps: [u64; MAXS],
	bottom: bool,
	versioning: bool,
	retention: u64,
	now: u64,
}

fn kind_of(k: u8) -> InternalKeyKind {
	match k {
		0 => InternalKeyKind::Set,
		1 => InternalKeyKind::Delete,
		2 => InternalKeyKind::SoftDelete,
		_ => InternalKeyKind::Replace,
	}
}

impl<const MAXN: usize, const MAXS: usize> Scenario<MAXN, MAXS> {
	/// N versions of ONE user key in strictly decreasing sequence order (what the merge iterator
	/// yields for one key), kinds the public API can write, a sorted duplicate-free snapshot list
	/// (what SnapshotTracker::get_all_snapshots returns).
	fn any(maxn: usize, maxs: usize, seq_max: u64) -> Self {
		let n: usize = kani::any();
		kani::assume(n >= 1 && n <= maxn);
		let seq: [u64; MAXN] = kani::any();
		let kind: [u8; MAXN] = kani::any();
		let ts: [u64; MAXN] = kani::any();
		let mut i = 0;
		while i < MAXN {
			kani::assume(kind[i] <= 3);
			kani::assume(seq[i] >= 1 && seq[i] <= seq_max);
			if i > 0 && i < n {
				kani::assume(seq[i] < seq[i - 1]);
				// commit timestamps are non-decreasing in commit order (per key)
				kani::assume(ts[i] <= ts[i - 1]);
			}
			i += 1;
		}
		let ns: usize = kani::any();
		kani::assume(ns <= maxs);
		let snaps: [u64; MAXS] = kani::any();
		let mut j = 0;
		while j < MAXS {
			kani::assume(snaps[j] >= 1 && snaps[j] <= seq_max + 1);
			if j > 0 && j < ns {
				kani::assume(snaps[j] > snaps[j - 1]);
			}
			j += 1;
		}
		Scenario {
			n,
			seq,
			kind,
			ts,
			ns,
			snaps,
			bottom: kani::any(),
			versioning: kani::any(),
			retention: kani::any(),
			now: kani::any(),
		}
	}

	fn is_tomb(&self, i: usize) -> bool {
		self.kind[i] == 1 || self.kind[i] == 2
	}
	fn is_hard(&self, i: usize) -> bool {
		self.kind[i] == 1
	}
	fn is_replace(&self, i: usize) -> bool {
		self.kind[i] == 3
	}

	/// index of the newest version with seq <= horizon among those with keep[i]
	fn visible(&self, horizon: u64, keep: &[bool; MAXN]) -> Option<usize> {
		let mut i = 0;
		while i < self.n {
			if keep[i] && self.seq[i] <= horizon {
				return Some(i);
			}
			i += 1;
		}
		None
	}

	fn selected_by_a_snapshot(&self, i: usize) -> bool {
		let all = [true; MAXN];
		let mut j = 0;
		let mut sel = false;
		while j < self.ns {
			if self.visible(self.snaps[j], &all) == Some(i) {
				sel = true;
			}
			j += 1;
		}
		sel
	}
	fn only_expired_replace_barriers_above(&self, i: usize) -> bool {
		let mut ok = true;
		let mut j = 0;
		while j < i {
			if self.is_hard(j) {
				ok = false;
			}
			if self.is_replace(j) && !(self.retention > 0 && self.now.saturating_sub(self.ts[j]) > self.retention) {
				ok = false;
			}
			j += 1;
		}
		ok
	}

	/// What a reader with this horizon is shown for the key, before (all) and after (kept) compaction.
	fn check_view(&self, horizon: u64, kept: &[bool; MAXN]) {
		let all = [true; MAXN];
		let before = self.visible(horizon, &all);
		let after = self.visible(horizon, kept);
		match before {
			None => assert!(after.is_none(), "a version appeared from nowhere"),
			Some(b) => {
				if self.is_tomb(b) {
					// reader saw "absent": must still see absent ...
					match after {
						Some(a) => assert!(self.is_tomb(a), "deleted key shows an older value again"),
						// ... and above the last level the tombstone must keep masking lower levels
						None => assert!(self.bottom, "tombstone dropped above the last level"),
					}
				} else {
					assert!(after == Some(b), "reader's visible version changed");
				}
			}
		}
	}
}

// ------------------------------------------------------------------ back ends

#[cfg(not(verif_replay))]
fn run<const MAXN: usize, const MAXS: usize>(sc: &Scenario<MAXN, MAXS>) -> [bool; MAXN] {
	use crate::verif_models::{OutRec, VersArr};
	let cmp: Arc<dyn Comparator> = Arc::new(crate::comparator::BytewiseComparator {});
	let mut snaps: Vec<u64> = Vec::with_capacity(MAXS);
	let mut j = 0;
	while j < sc.ns {
		snaps.push(sc.snaps[j]);
		j += 1;
	}
	let mut it = CompactionIterator::new(
		Vec::new(),
		cmp,
		sc.bottom,
		sc.versioning,
		sc.retention,
		Arc::new(FixedClock(sc.now)),
		snaps,
	);
	let mut acc: VersArr<MAXN> = VersArr {
		items: core::array::from_fn(|i| {
			(InternalKey::new(Vec::new(), sc.seq[i], kind_of(sc.kind[i]), sc.ts[i]), Vec::new())
		}),
		len: sc.n,
	};
	let mut outv: OutRec<MAXN> = OutRec::new();
	let r = it.verif_process_versions(&mut acc, &mut outv);
	assert!(r.is_ok(), "process_accumulated_versions returned an error");
	core::mem::forget(r);
	// output order must stay strictly decreasing in seq (the table writer requires sorted input)
	let mut k = 1;
	while k < outv.n {
		assert!(outv.seqs[k] < outv.seqs[k - 1], "compaction output out of order");
		k += 1;
	}
	let mut kept = [false; MAXN];
	let mut i = 0;
	while i < sc.n {
		kept[i] = outv.kept(sc.seq[i]);
		i += 1;
	}
	core::mem::forget(it);
	core::mem::forget(acc);
	kept
}

#[cfg(verif_replay)]
struct VecIter {
	items: Vec<(Vec<u8>, Vec<u8>)>,
	pos: usize,
}
#[cfg(verif_replay)]
impl LSMIterator for VecIter {
	fn seek(&mut self, _t: &[u8]) -> Result<bool> {
		self.pos = 0;
		Ok(self.valid())
	}
	fn seek_first(&mut self) -> Result<bool> {
		self.pos = 0;
		Ok(self.valid())
	}
	fn seek_last(&mut self) -> Result<bool> {
		self.pos = self.items.len().saturating_sub(1);
		Ok(self.valid())
	}
	fn next(&mut self) -> Result<bool> {
		self.pos += 1;
		Ok(self.valid())
	}
	fn prev(&mut self) -> Result<bool> {
		if self.pos == 0 {
			self.pos = self.items.len();
		} else {
			self.pos -= 1;
		}
		Ok(self.valid())
	}
	fn valid(&self) -> bool {
		self.pos < self.items.len()
	}
	fn key(&self) -> InternalKeyRef<'_> {
		InternalKeyRef::from_encoded(&self.items[self.pos].0)
	}
	fn value_encoded(&self) -> Result<&[u8]> {
		Ok(&self.items[self.pos].1)
	}
}

/// Native replay back end: the REAL CompactionIterator::new(..).advance() loop (sort, dedup,
/// accumulate, process, drain) over an in-memory child iterator, neighbours before and after.
#[cfg(verif_replay)]
fn run<const MAXN: usize, const MAXS: usize>(sc: &Scenario<MAXN, MAXS>) -> [bool; MAXN] {
	let mut items = Vec::new();
	items.push((InternalKey::new(b"a".to_vec(), 1, InternalKeyKind::Set, 0).encode(), b"x".to_vec()));
	for i in 0..sc.n {
		items.push((
			InternalKey::new(b"k".to_vec(), sc.seq[i], kind_of(sc.kind[i]), sc.ts[i]).encode(),
			vec![i as u8],
		));
	}
	items.push((InternalKey::new(b"z".to_vec(), 1, InternalKeyKind::Set, 0).encode(), b"x".to_vec()));
	let child: BoxedLSMIterator<'static> = Box::new(VecIter { items, pos: 0 });
	let cmp: Arc<dyn Comparator> = Arc::new(crate::comparator::InternalKeyComparator::new(Arc::new(
		crate::comparator::BytewiseComparator {},
	)));
	let mut it = CompactionIterator::new(
		vec![child],
		cmp,
		sc.bottom,
		sc.versioning,
		sc.retention,
		Arc::new(FixedClock(sc.now)),
		sc.snaps[..sc.ns].to_vec(),
	);
	let mut kept = [false; MAXN];
	let mut last: Option<u64> = None;
	while let Some((k, _v)) = it.advance().expect("advance") {
		if k.user_key == b"k" {
			if let Some(l) = last {
				assert!(k.seq_num() < l, "compaction output out of order");
			}
			last = Some(k.seq_num());
			for i in 0..sc.n {
				if sc.seq[i] == k.seq_num() {
					kept[i] = true;
				}
			}
		}
	}
	println!(
		"REPLAY compaction n={} seq={:?} kind(0=Set,1=Delete,2=SoftDelete,3=Replace)={:?} ts={:?} snapshots={:?} bottom={} versioning={} retention={} now={} -> kept={:?}",
		sc.n, &sc.seq[..sc.n], &sc.kind[..sc.n], &sc.ts[..sc.n], &sc.snaps[..sc.ns], sc.bottom, sc.versioning, sc.retention, sc.now, &kept[..sc.n]
	);
	kept
}

// ------------------------------------------------------------------ obligations

/// C01-O1 / C06-O1: every registered snapshot horizon and the latest horizon read the same thing
/// before and after compaction, for every version history of a key.
fn views_preserved<const MAXN: usize, const MAXS: usize>(maxn: usize, maxs: usize) {
	let sc = Scenario::<MAXN, MAXS>::any(maxn, maxs, 14);
	let kept = run(&sc);
	// latest view (C06: physical arrangement never changes answers; deleted keys stay deleted)
	sc.check_view(u64::MAX, &kept);
	// every registered snapshot (C01: an open reader's view is immune to compaction)
	let mut j = 0;
	while j < sc.ns {
		sc.check_view(sc.snaps[j], &kept);
		j += 1;
	}
	let mut dropped_any = false;
	let mut dropped_tomb = false;
	let mut i = 0;
	while i < sc.n {
		if !kept[i] {
			dropped_any = true;
			if sc.is_tomb(i) {
				dropped_tomb = true;
			}
		}
		i += 1;
	}
	kani::cover!(dropped_any, "a version was dropped");
	kani::cover!(dropped_tomb && sc.bottom, "a tombstone was dropped at the last level");
	kani::cover!(sc.ns > 0 && dropped_any && kept[sc.n - 1] && sc.n >= 2, "oldest version kept for a snapshot while another was dropped");
	kani::cover!(sc.versioning && dropped_any, "versioning on and a version dropped");
}

#[kani::proof]
#[kani::unwind(6)]
fn c01_compaction_keeps_every_view_n4_s3() {
	views_preserved::<4, 3>(4, 3);
}

#[kani::proof]
#[kani::unwind(8)]
fn c01_compaction_keeps_every_view_n6_s4() {
	views_preserved::<6, 4>(6, 4);
}

#[kani::proof]
#[kani::unwind(10)]
fn c01_compaction_keeps_every_view_n8_s5() {
	views_preserved::<8, 5>(8, 5);
}

#[kani::proof]
#[kani::unwind(12)]
fn c01_compaction_keeps_every_view_n10_s6() {
	views_preserved::<10, 6>(10, 6);
}

/// C10-O1: with versioning enabled a version disappears only with a licence.
fn history_retained<const MAXN: usize, const MAXS: usize>(maxn: usize, maxs: usize) {
	let sc = Scenario::<MAXN, MAXS>::any(maxn, maxs, 14);
	kani::assume(sc.versioning);
	// explicit timestamps (set_at) may lie ahead of the clock: such a version has age 0
	let kept = run(&sc);
	let newest_is_hard_delete_at_bottom = sc.bottom && sc.is_hard(0);
	let mut any_replace_above = false; // a Replace strictly newer than i, or i itself a non-replace with a replace anywhere
	let mut any_replace = false;
	let mut r = 0;
	while r < sc.n {
		if sc.is_replace(r) {
			any_replace = true;
		}
		r += 1;
	}
	let _ = any_replace_above;
	let mut i = 0;
	let mut dropped_expired = false;
	let mut dropped_by_replace = false;
	while i < sc.n {
		if !kept[i] {
			let expired = sc.retention > 0 && sc.now.saturating_sub(sc.ts[i]) > sc.retention;
			// licences the property grants: erased by a hard delete or a replace, or out of the window
			let under_hard_delete = {
				let mut u = false;
				let mut j = 0;
				while j < i {
					if sc.is_hard(j) {
						u = true;
					}
					j += 1;
				}
				u
			};
			let under_replace = {
				let mut u = false;
				let mut j = 0;
				while j < i {
					if sc.is_replace(j) {
						u = true;
					}
					j += 1;
				}
				u
			};
			let is_dropped_tombstone = sc.is_hard(i) && (i > 0 || sc.bottom);
			let licence = expired || under_hard_delete || under_replace || is_dropped_tombstone;
			assert!(licence, "version inside the retention window lost without a hard delete / replace above it");
			if expired && !under_hard_delete && !under_replace {
				dropped_expired = true;
			}
			if under_replace {
				dropped_by_replace = true;
			}
		}
		i += 1;
	}
	let _ = (any_replace, newest_is_hard_delete_at_bottom);
	kani::cover!(dropped_expired, "a version dropped because it left the retention window");
	kani::cover!(dropped_by_replace, "a version dropped because a replace erased it");
	kani::cover!(sc.retention == 0 && sc.n == maxn && kept[sc.n - 1], "unlimited retention keeps the oldest version");
	kani::cover!(sc.retention > 0 && sc.n >= 2 && sc.ts[1] > sc.now && kept[1], "future-dated version kept (age 0)");
}

#[kani::proof]
#[kani::unwind(6)]
fn c10_retention_never_loses_live_version_n4_s3() {
	history_retained::<4, 3>(4, 3);
}

#[kani::proof]
#[kani::unwind(8)]
fn c10_retention_never_loses_live_version_n6_s4() {
	history_retained::<6, 4>(6, 4);
}

#[kani::proof]
#[kani::unwind(10)]
fn c10_retention_never_loses_live_version_n8_s5() {
	history_retained::<8, 5>(8, 5);
}

#[kani::proof]
#[kani::unwind(12)]
fn c10_retention_never_loses_live_version_n10_s6() {
	history_retained::<10, 6>(10, 6);
}

/// C10-O2: an erased version never outlives its barrier: if a version with a hard delete or a
/// replace above it is kept, some barrier above it is kept too (the history readers apply the
/// barrier at read time; once every barrier above a kept version is gone it shows up in history again).
fn barrier_never_outlived<const MAXN: usize, const MAXS: usize>(maxn: usize, maxs: usize) {
	let sc = Scenario::<MAXN, MAXS>::any(maxn, maxs, 14);
	kani::assume(sc.versioning);
	let kept = run(&sc);
	let mut resurfaced_candidate = false;
	let mut i = 1;
	while i < sc.n {
		// (a kept hard-delete marker is never listed by history reads: only value versions,
		// soft deletes and replaces can "come back")
		if kept[i] && !sc.is_hard(i) {
			let mut barrier_above = false;
			let mut kept_barrier_above = false;
			let mut j = 0;
			while j < i {
				if sc.is_hard(j) || sc.is_replace(j) {
					barrier_above = true;
					if kept[j] {
						kept_barrier_above = true;
					}
				}
				j += 1;
			}
			// signature of listed finding F10r (excluded only while it is listed): version i is kept
			// because a registered snapshot selects it, and every barrier above it is a REPLACE that
			// left a finite retention window
			let f10r = crate::verif_cfg::KF_F10R && sc.selected_by_a_snapshot(i) && sc.only_expired_replace_barriers_above(i);
			if barrier_above && !f10r {
				resurfaced_candidate = true;
				assert!(kept_barrier_above, "a version erased by a hard delete / replace survives after every barrier above it was dropped");
			}
		}
		i += 1;
	}
	kani::cover!(resurfaced_candidate, "a version under a barrier is kept together with its barrier");
	kani::cover!(sc.n >= 2 && sc.is_replace(0) && !kept[1], "replace erased the version below it");
}

#[kani::proof]
#[kani::unwind(6)]
fn c10_barrier_never_outlived_n4_s3() {
	barrier_never_outlived::<4, 3>(4, 3);
}

#[kani::proof]
#[kani::unwind(8)]
fn c10_barrier_never_outlived_n6_s4() {
	barrier_never_outlived::<6, 4>(6, 4);
}

#[kani::proof]
#[kani::unwind(10)]
fn c10_barrier_never_outlived_n8_s5() {
	barrier_never_outlived::<8, 5>(8, 5);
}

#[kani::proof]
#[kani::unwind(12)]
fn c10_barrier_never_outlived_n10_s6() {
	barrier_never_outlived::<10, 6>(10, 6);
}

/// Witness of known finding F10r (only run while it is listed): [Set, Replace (expired), Set] with a
/// snapshot that still reads the oldest Set: the Replace leaves the retention window and is dropped,
/// the oldest Set is kept for the snapshot and is no longer hidden from history reads.
#[kani::proof]
#[kani::unwind(6)]
fn c10_witness_f10r_expired_replace_barrier() {
	let sc = Scenario::<4, 3>::any(3, 1, 14);
	kani::assume(sc.versioning && sc.n == 3 && sc.ns == 1 && sc.retention > 0);
	kani::assume(sc.kind[0] == 0 && sc.kind[1] == 3 && sc.kind[2] == 0);
	kani::assume(sc.ts[0] <= sc.now && sc.ts[1] <= sc.now);
	kani::assume(sc.now - sc.ts[1] > sc.retention);
	kani::assume(sc.snaps[0] >= sc.seq[2] && sc.snaps[0] < sc.seq[1]);
	let kept = run(&sc);
	assert!(!kept[2] || kept[1], "F10r: version erased by a replace outlives the replace (dropped by retention) because a snapshot holds it");
}
