// Harnesses attached (as a child module) to src/comparator.rs of the overlay copy.
// C13: separator / successor lemmas of the bytewise order the table index is built on.
use super::*;

fn any_key<const N: usize>() -> ([u8; N], usize) {
	let buf: [u8; N] = kani::any();
	let len: usize = kani::any();
	kani::assume(len <= N);
	(buf, len)
}

fn separator_in_range<const N: usize>() {
	let (a, la) = any_key::<N>();
	let (b, lb) = any_key::<N>();
	let a = &a[..la];
	let b = &b[..lb];
	kani::assume(a < b);
	let c = BytewiseComparator {};
	let s = c.separator(a, b);
	#[cfg(verif_replay)]
	println!("REPLAY separator a={:?} b={:?} -> {:?}", a, b, s);
	// index entry = separator: it must be an upper bound of the block ending in `a`
	// and strictly below the first key `b` of the next block
	assert!(a <= s.as_slice(), "separator below its lower key");
	assert!(s.as_slice() < b, "separator not below the next block's first key");
	assert!(s.len() <= a.len(), "separator longer than the key it replaces");
	kani::cover!(s.len() < a.len(), "separator strictly shorter");
	kani::cover!(s.as_slice() != a, "separator differs from a");
	kani::cover!(la >= 2 && a[la - 1] == 0xff && s.as_slice() != a, "0xff-terminated key shortened");
	core::mem::forget(s);
}

/// C13-O1: a < b  =>  a <= sep(a,b) < b, every pair of byte strings up to 3 bytes.
#[kani::proof]
#[kani::unwind(6)]
fn c13_bytewise_separator_in_range_3() {
	separator_in_range::<3>();
}

/// C13-O1 (thorough): up to 4 bytes.
#[kani::proof]
#[kani::unwind(7)]
fn c13_bytewise_separator_in_range_4() {
	separator_in_range::<4>();
}

fn successor_ge<const N: usize>() {
	let (k, lk) = any_key::<N>();
	let k = &k[..lk];
	let c = BytewiseComparator {};
	let s = c.successor(k);
	#[cfg(verif_replay)]
	println!("REPLAY successor k={:?} -> {:?}", k, s);
	// the last index entry of a table is successor(last key): must not be below it
	assert!(s.as_slice() >= k, "successor below its key");
	assert!(s.len() <= k.len(), "successor longer than its key");
	kani::cover!(s.len() < k.len(), "successor strictly shorter");
	kani::cover!(lk > 0 && s.as_slice() == k, "all-0xff key unchanged");
	core::mem::forget(s);
}

/// C13-O2: successor(k) >= k.
#[kani::proof]
#[kani::unwind(6)]
fn c13_bytewise_successor_ge_3() {
	successor_ge::<3>();
}

#[kani::proof]
#[kani::unwind(7)]
fn c13_bytewise_successor_ge_4() {
	successor_ge::<4>();
}

/// encoded internal key in a fixed array: user key (<= 2 bytes) || trailer (seq << 8 | kind, BE) || timestamp (BE)
fn any_encoded() -> ([u8; 18], usize, u64, u64) {
	let uk: [u8; 2] = kani::any();
	let ul: usize = kani::any();
	kani::assume(ul <= 2);
	let seq: u64 = kani::any();
	kani::assume(seq <= crate::INTERNAL_KEY_SEQ_NUM_MAX);
	let kind: u8 = kani::any();
	kani::assume(kind <= 7);
	let ts: u64 = kani::any();
	let trailer = (seq << 8) | kind as u64;
	let mut buf = [0u8; 18];
	let mut i = 0;
	while i < ul {
		buf[i] = uk[i];
		i += 1;
	}
	let tb = trailer.to_be_bytes();
	let sb = ts.to_be_bytes();
	let mut j = 0;
	while j < 8 {
		buf[ul + j] = tb[j];
		buf[ul + 8 + j] = sb[j];
		j += 1;
	}
	(buf, ul + 16, seq, ts)
}

/// C13-O5: the internal order every table, block and merge relies on:
/// InternalKeyComparator::compare = (user key ascending, then sequence number DESCENDING), total and
/// antisymmetric, for all user keys <= 2 bytes, all 56-bit sequence numbers, all kinds and timestamps.
#[kani::proof]
#[kani::unwind(10)]
fn c13_internal_order_is_userkey_asc_seq_desc() {
	let (a, la, sa, _ta) = any_encoded();
	let (b, lb, sb, _tb) = any_encoded();
	let (ea, eb) = (&a[..la], &b[..lb]);
	let c = InternalKeyComparator::new(Arc::new(BytewiseComparator {}));
	let got = c.compare(ea, eb);
	let (ua, ub) = (&a[..la - 16], &b[..lb - 16]);
	let want = match ua.cmp(ub) {
		Ordering::Equal => sb.cmp(&sa),
		o => o,
	};
	assert!(got == want, "internal order is not (user key asc, seq desc)");
	assert!(c.compare(eb, ea) == want.reverse(), "internal order is not antisymmetric");
	// the zero-copy accessors agree with the encoding
	assert!(InternalKey::seq_num_from_encoded(ea) == sa && InternalKey::user_key_from_encoded(ea) == ua);
	kani::cover!(ua == ub && sa > sb && got == Ordering::Less, "newer version sorts first");
	kani::cover!(ua < ub && sa < sb, "user key dominates the sequence number");
	core::mem::forget(c);
}

/// C13-O5b: TimestampComparator::compare = (user key ascending, then timestamp DESCENDING)
#[kani::proof]
#[kani::unwind(10)]
fn c13_timestamp_order_is_userkey_asc_ts_desc() {
	let (a, la, _sa, ta) = any_encoded();
	let (b, lb, _sb, tb) = any_encoded();
	let (ea, eb) = (&a[..la], &b[..lb]);
	let c = TimestampComparator::new(Arc::new(BytewiseComparator {}));
	let got = c.compare(ea, eb);
	let (ua, ub) = (&a[..la - 16], &b[..lb - 16]);
	let want = match ua.cmp(ub) {
		Ordering::Equal => tb.cmp(&ta),
		o => o,
	};
	assert!(got == want, "timestamp order is not (user key asc, timestamp desc)");
	kani::cover!(ua == ub && ta > tb && got == Ordering::Less, "newer timestamp sorts first");
	kani::cover!(ua != ub, "different user keys");
	core::mem::forget(c);
}
