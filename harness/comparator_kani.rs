// Harnesses attached (as a child module) to src/comparator.rs of the overlay copy.
// C13: separator / successor lemmas of the bytewise order the table index is built on.
use super::*;

fn any_key<const N: usize>() -> ([u8; N], usize) {
	let buf: [u8; N] = kani::any();
	let len: usize = kani::any();
	kani::assume(len <= N);
	(buf, len)
}

fn separator_in_range<const N: usize>() {
	let (a, la) = any_key::<N>();
	let (b, lb) = any_key::<N>();
	let a = &a[..la];
	let b = &b[..lb];
	kani::assume(a < b);
	let c = BytewiseComparator {};
	let s = c.separator(a, b);
	#[cfg(verif_replay)]
	println!("REPLAY separator a={:?} b={:?} -> {:?}", a, b, s);
	// index entry = separator: it must be an upper bound of the block ending in `a`
	// and strictly below the first key `b` of the next block
	assert!(a <= s.as_slice(), "separator below its lower key");
	assert!(s.as_slice() < b, "separator not below the next block's first key");
	assert!(s.len() <= a.len(), "separator longer than the key it replaces");
	kani::cover!(s.len() < a.len(), "separator strictly shorter");
	kani::cover!(s.as_slice() != a, "separator differs from a");
	kani::cover!(la >= 2 && a[la - 1] == 0xff && s.as_slice() != a, "0xff-terminated key shortened");
	core::mem::forget(s);
}

/// C13-O1: a < b  =>  a <= sep(a,b) < b, every pair of byte strings up to 3 bytes.
#[kani::proof]
#[kani::unwind(6)]
fn c13_bytewise_separator_in_range_3() {
	separator_in_range::<3>();
}

/// C13-O1 (thorough): up to 4 bytes.
#[kani::proof]
#[kani::unwind(7)]
fn c13_bytewise_separator_in_range_4() {
	separator_in_range::<4>();
}

fn successor_ge<const N: usize>() {
	let (k, lk) = any_key::<N>();
	let k = &k[..lk];
	let c = BytewiseComparator {};
	let s = c.successor(k);
	#[cfg(verif_replay)]
	println!("REPLAY successor k={:?} -> {:?}", k, s);
	// the last index entry of a table is successor(last key): must not be below it
	assert!(s.as_slice() >= k, "successor below its key");
	assert!(s.len() <= k.len(), "successor longer than its key");
	kani::cover!(s.len() < k.len(), "successor strictly shorter");
	kani::cover!(lk > 0 && s.as_slice() == k, "all-0xff key unchanged");
	core::mem::forget(s);
}

/// C13-O2: successor(k) >= k.
#[kani::proof]
#[kani::unwind(6)]
fn c13_bytewise_successor_ge_3() {
	successor_ge::<3>();
}

#[kani::proof]
#[kani::unwind(7)]
fn c13_bytewise_successor_ge_4() {
	successor_ge::<4>();
}
