// Harnesses attached (as a child module) to src/comparator.rs of the overlay copy.
// C13: separator / successor lemmas of the bytewise order the table index is built on.
use super::*;

fn any_key<const N: usize>() -> ([u8; N], usize) {
	let buf: [u8; N] = kani::any();
	let len: usize = kani::any();
	kani::assume(len <= N);
	(buf, len)
}

fn separator_in_range<const N: usize>() {
	let (a, la) = any_key::<N>();
	let (b, lb) = any_key::<N>();
	let a = &a[..la];
	let b = &b[..lb];
	kani::assume(a < b);
	let c = BytewiseComparator {};
	let s = c.separator(a, b);
	#[cfg(verif_replay)]
	println!("REPLAY separator a={:?} b={:?} -> {:?}", a, b, s);
	// index entry = separator: it must be an upper bound of the block ending in `a`
	// and strictly below the first key `b` of the next block
	assert!(a <= s.as_slice(), "separator below its lower key");
	assert!(s.as_slice() < b, "separator not below the next block's first key");
	kani::cover!(s.len() < a.len(), "separator strictly shorter");
	kani::cover!(s.as_slice() != a, "separator differs from a");
	kani::cover!(la >= 2 && a[la - 1] == 0xff && s.as_slice() != a, "0xff-terminated key shortened");
	core::mem::forget(s);
}

/// C13-O1: a < b  =>  a <= sep(a,b) < b, every pair of byte strings up to 3 bytes.
#[kani::proof]
#[kani::unwind(6)]
fn c13_bytewise_separator_in_range_3() {
	separator_in_range::<3>();
}

/// C13-O1 (thorough): up to 4 bytes.
#[kani::proof]
#[kani::unwind(7)]
fn c13_bytewise_separator_in_range_4() {
	separator_in_range::<4>();
}

#[kani::proof]
#[kani::unwind(9)]
fn c13_bytewise_separator_in_range_6() {
	separator_in_range::<6>();
}

#[kani::proof]
#[kani::unwind(12)]
fn c13_bytewise_separator_in_range_9() {
	separator_in_range::<9>();
}

#[kani::proof]
#[kani::unwind(19)]
fn c13_bytewise_separator_in_range_16() {
	separator_in_range::<16>();
}

fn successor_ge<const N: usize>() {
	let (k, lk) = any_key::<N>();
	let k = &k[..lk];
	let c = BytewiseComparator {};
	let s = c.successor(k);
	#[cfg(verif_replay)]
	println!("REPLAY successor k={:?} -> {:?}", k, s);
	// the last index entry of a table is successor(last key): must not be below it
	assert!(s.as_slice() >= k, "successor below its key");
	kani::cover!(s.len() < k.len(), "successor strictly shorter");
	kani::cover!(lk > 0 && s.as_slice() == k, "all-0xff key unchanged");
	core::mem::forget(s);
}

/// C13-O2: successor(k) >= k.
#[kani::proof]
#[kani::unwind(6)]
fn c13_bytewise_successor_ge_3() {
	successor_ge::<3>();
}

#[kani::proof]
#[kani::unwind(7)]
fn c13_bytewise_successor_ge_4() {
	successor_ge::<4>();
}

#[kani::proof]
#[kani::unwind(8)]
fn c13_bytewise_successor_ge_5() {
	successor_ge::<5>();
}

/// encoded internal key in a fixed array: user key (<= 2 bytes) || trailer (seq << 8 | kind, BE) || timestamp (BE)
fn any_encoded() -> ([u8; 18], usize, u64, u64) {
	let uk: [u8; 2] = kani::any();
	let ul: usize = kani::any();
	kani::assume(ul <= 2);
	let seq: u64 = kani::any();
	kani::assume(seq <= crate::INTERNAL_KEY_SEQ_NUM_MAX);
	let kind: u8 = kani::any();
	kani::assume(kind <= 7);
	let ts: u64 = kani::any();
	let trailer = (seq << 8) | kind as u64;
	let mut buf = [0u8; 18];
	let mut i = 0;
	while i < ul {
		buf[i] = uk[i];
		i += 1;
	}
	let tb = trailer.to_be_bytes();
	let sb = ts.to_be_bytes();
	let mut j = 0;
	while j < 8 {
		buf[ul + j] = tb[j];
		buf[ul + 8 + j] = sb[j];
		j += 1;
	}
	(buf, ul + 16, seq, ts)
}

/// C13-O5: the internal order every table, block and merge relies on:
/// InternalKeyComparator::compare = (user key ascending, then sequence number DESCENDING), total and
/// antisymmetric, for all user keys <= 2 bytes, all 56-bit sequence numbers, all kinds and timestamps.
#[kani::proof]
#[kani::unwind(10)]
fn c13_internal_order_is_userkey_asc_seq_desc() {
	let (a, la, sa, _ta) = any_encoded();
	let (b, lb, sb, _tb) = any_encoded();
	let (ea, eb) = (&a[..la], &b[..lb]);
	let c = InternalKeyComparator::new(Arc::new(BytewiseComparator {}));
	let got = c.compare(ea, eb);
	let (ua, ub) = (&a[..la - 16], &b[..lb - 16]);
	let want = match ua.cmp(ub) {
		Ordering::Equal => sb.cmp(&sa),
		o => o,
	};
	assert!(got == want, "internal order is not (user key asc, seq desc)");
	assert!(c.compare(eb, ea) == want.reverse(), "internal order is not antisymmetric");
	// the zero-copy accessors agree with the encoding
	assert!(InternalKey::seq_num_from_encoded(ea) == sa && InternalKey::user_key_from_encoded(ea) == ua);
	kani::cover!(ua == ub && sa > sb && got == Ordering::Less, "newer version sorts first");
	kani::cover!(ua < ub && sa < sb, "user key dominates the sequence number");
	core::mem::forget(c);
}

/// C13-O5b: TimestampComparator::compare = (user key ascending, then timestamp DESCENDING)
#[kani::proof]
#[kani::unwind(10)]
fn c13_timestamp_order_is_userkey_asc_ts_desc() {
	let (a, la, _sa, ta) = any_encoded();
	let (b, lb, _sb, tb) = any_encoded();
	let (ea, eb) = (&a[..la], &b[..lb]);
	let c = TimestampComparator::new(Arc::new(BytewiseComparator {}));
	let got = c.compare(ea, eb);
	let (ua, ub) = (&a[..la - 16], &b[..lb - 16]);
	let want = match ua.cmp(ub) {
		Ordering::Equal => tb.cmp(&ta),
		o => o,
	};
	assert!(got == want, "timestamp order is not (user key asc, timestamp desc)");
	kani::cover!(ua == ub && ta > tb && got == Ordering::Less, "newer timestamp sorts first");
	kani::cover!(ua != ub, "different user keys");
	core::mem::forget(c);
}

/// C13-O5c: the memtable's order (`impl Ord for InternalKey`) and the tables' order
/// (InternalKeyComparator on encoded keys) agree whenever two keys differ in user key or sequence
/// number - the merge of memtables and tables relies on one order.
#[kani::proof]
#[kani::unwind(10)]
fn c13_memtable_order_agrees_with_table_order() {
	let (a, la, sa, ta) = any_encoded();
	let (b, lb, sb, tb) = any_encoded();
	let (ea, eb) = (&a[..la], &b[..lb]);
	let (ua, ub) = (&a[..la - 16], &b[..lb - 16]);
	kani::assume(ua != ub || sa != sb);
	let ka = InternalKey { user_key: ua.to_vec(), timestamp: ta, trailer: u64::from_be_bytes([a[la - 16], a[la - 15], a[la - 14], a[la - 13], a[la - 12], a[la - 11], a[la - 10], a[la - 9]]) };
	let kb = InternalKey { user_key: ub.to_vec(), timestamp: tb, trailer: u64::from_be_bytes([b[lb - 16], b[lb - 15], b[lb - 14], b[lb - 13], b[lb - 12], b[lb - 11], b[lb - 10], b[lb - 9]]) };
	assert!(ka.seq_num() == sa && kb.seq_num() == sb, "InternalKey::seq_num disagrees with the encoding");
	let c = InternalKeyComparator::new(Arc::new(BytewiseComparator {}));
	assert!(ka.cmp(&kb) == c.compare(ea, eb), "memtable order (impl Ord for InternalKey) and table order (InternalKeyComparator) disagree");
	kani::cover!(ua == ub && sa > sb, "same user key, different versions");
	kani::cover!(ua != ub, "different user keys");
	core::mem::forget(ka);
	core::mem::forget(kb);
	core::mem::forget(c);
}

/// C06-O2b: the internal bounds a user range is translated to bracket EVERY version of the boundary
/// key: with an included bound all versions of the key lie inside the range, with an excluded bound
/// all of them lie outside - for every version (sequence number 1..2^56-2, any kind the API writes,
/// any timestamp).  One bound per instance (each needs two heap-encoded keys).
/// which: 0 = included lower, 1 = included upper, 2 = excluded lower, 3 = excluded upper
fn range_bound_brackets(which: u8) {
	use std::ops::Bound;
	let uk: [u8; 2] = kani::any();
	let ul: usize = kani::any();
	kani::assume(ul <= 2);
	let k = &uk[..ul];
	let (v, lv, seq, _ts) = any_encoded_with_key(&uk, ul);
	let ev = &v[..lv];
	kani::assume(seq >= 1 && seq < crate::INTERNAL_KEY_SEQ_NUM_MAX);
	let c = InternalKeyComparator::new(Arc::new(BytewiseComparator {}));
	let (lo, hi) = match which {
		0 => crate::user_range_to_internal_range(Bound::Included(k), Bound::Unbounded),
		1 => crate::user_range_to_internal_range(Bound::Unbounded, Bound::Included(k)),
		2 => crate::user_range_to_internal_range(Bound::Excluded(k), Bound::Unbounded),
		_ => crate::user_range_to_internal_range(Bound::Unbounded, Bound::Excluded(k)),
	};
	match (which, &lo, &hi) {
		(0, Bound::Included(l), Bound::Unbounded) => {
			let e = l.encode();
			assert!(c.compare(&e, ev) != Ordering::Greater, "included lower bound sorts after a version of its key (the version would be skipped)");
			core::mem::forget(e);
		}
		(1, Bound::Unbounded, Bound::Included(h)) => {
			let e = h.encode();
			assert!(c.compare(ev, &e) != Ordering::Greater, "included upper bound sorts before a version of its key (the version would be cut off)");
			core::mem::forget(e);
		}
		(2, Bound::Excluded(l), Bound::Unbounded) => {
			let e = l.encode();
			assert!(c.compare(ev, &e) != Ordering::Greater, "excluded lower bound sorts before a version of its key (the key would be returned)");
			core::mem::forget(e);
		}
		(3, Bound::Unbounded, Bound::Excluded(h)) => {
			let e = h.encode();
			assert!(c.compare(&e, ev) != Ordering::Greater, "excluded upper bound sorts after a version of its key (the key would be returned)");
			core::mem::forget(e);
		}
		_ => assert!(false, "bound kind changed by the translation"),
	}
	kani::cover!(ul == 0, "empty user key");
	kani::cover!(seq > (1 << 48), "version with a large sequence number");
	core::mem::forget((lo, hi));
	core::mem::forget(c);
}

/// encoded version of the GIVEN user key: trailer (seq, API kind) and timestamp symbolic
fn any_encoded_with_key(uk: &[u8; 2], ul: usize) -> ([u8; 18], usize, u64, u64) {
	let seq: u64 = kani::any();
	kani::assume(seq <= crate::INTERNAL_KEY_SEQ_NUM_MAX);
	let kind: u8 = kani::any();
	kani::assume(kind <= 2 || kind == 6); // Delete, SoftDelete, Set, Replace
	let ts: u64 = kani::any();
	let trailer = (seq << 8) | kind as u64;
	let mut buf = [0u8; 18];
	let mut i = 0;
	while i < ul {
		buf[i] = uk[i];
		i += 1;
	}
	let tb = trailer.to_be_bytes();
	let sb = ts.to_be_bytes();
	let mut j = 0;
	while j < 8 {
		buf[ul + j] = tb[j];
		buf[ul + 8 + j] = sb[j];
		j += 1;
	}
	(buf, ul + 16, seq, ts)
}

#[kani::proof]
#[kani::unwind(10)]
fn c06_range_bound_brackets_included_lower() {
	range_bound_brackets(0);
}
#[kani::proof]
#[kani::unwind(10)]
fn c06_range_bound_brackets_included_upper() {
	range_bound_brackets(1);
}
#[kani::proof]
#[kani::unwind(10)]
fn c06_range_bound_brackets_excluded_lower() {
	range_bound_brackets(2);
}
#[kani::proof]
#[kani::unwind(10)]
fn c06_range_bound_brackets_excluded_upper() {
	range_bound_brackets(3);
}
