// C06-O3: binary searches over the key-ordered tables of a level (src/levels/level.rs).
use super::*;
use crate::sstable::table::verif_kani::{in_user_range, mk_bound, mk_table};

/// Three key-disjoint tables sorted by key (the invariant of levels >= 1), one-byte bounds, a
/// symbolic user range: every table that holds a key of the range lies inside
/// [find_first_overlapping_table, find_last_overlapping_table).
fn level_overlap_search(nt: usize) {
	let b: [u8; 6] = kani::any();
	// t0=[b0,b1] < t1=[b2,b3] < t2=[b4,b5]
	kani::assume(b[0] <= b[1] && b[1] < b[2] && b[2] <= b[3] && b[3] < b[4] && b[4] <= b[5]);
	let mut tables: Vec<Arc<Table>> = Vec::with_capacity(3);
	let mut i = 0;
	while i < nt {
		tables.push(mk_table(i as u64 + 1, Some(&b[2 * i..2 * i + 1]), Some(&b[2 * i + 1..2 * i + 2]), (Some(1), Some(1))));
		i += 1;
	}
	let level = Level { tables };
	let lo: u8 = kani::any();
	let hi: u8 = kani::any();
	let lk: u8 = kani::any();
	let uk: u8 = kani::any();
	kani::assume(lk <= 2 && uk <= 2);
	let (lo_s, hi_s) = ([lo], [hi]);
	let range = crate::user_range_to_internal_range(mk_bound(lk, &lo_s), mk_bound(uk, &hi_s));
	let first = level.find_first_overlapping_table(&range);
	let last = level.find_last_overlapping_table(&range);
	// a key x stored in table j and selected by the range
	let j: usize = kani::any();
	let x: u8 = kani::any();
	kani::assume(j < nt);
	kani::assume(b[2 * j] <= x && x <= b[2 * j + 1]);
	kani::assume(in_user_range(&[x], lk, &lo_s, uk, &hi_s));
	#[cfg(verif_replay)]
	println!("REPLAY level tables={:?} nt={} range lo({})={} hi({})={} x={} in table {} -> first={} last={}", b, nt, lk, lo, uk, hi, x, j, first, last);
	assert!(first <= j, "find_first_overlapping_table skipped a table that holds a key of the range");
	assert!(j < last, "find_last_overlapping_table cut off a table that holds a key of the range");
	assert!(last <= nt);
	kani::cover!(first == 1 && last == 2, "only the second table selected");
	kani::cover!(first == 0 && last == nt, "all tables selected");
	kani::cover!(lk == 2 && uk == 2, "both bounds excluded");
	core::mem::forget(range);
	core::mem::forget(level);
}

#[kani::proof]
#[kani::unwind(6)]
fn c06_level_insert_keeps_search_order_t2() {
	level_insert_keeps_search_order(2);
}

#[kani::proof]
#[kani::unwind(6)]
fn c06_level_insert_keeps_search_order_t3() {
	level_insert_keeps_search_order(3);
}

#[kani::proof]
#[kani::unwind(5)]
fn c06_level_overlap_search_never_skips_a_table_t3() {
	level_overlap_search(3);
}

#[kani::proof]
#[kani::unwind(5)]
fn c06_level_overlap_search_never_skips_a_table_t2() {
	level_overlap_search(2);
}

/// C07-O2: the level layout written into the manifest is read back exactly:
/// Levels::decode(Levels::encode(l)) returns the table ids per level, in order (2 levels x (2,1) tables,
/// symbolic ids; structure concrete).
#[kani::proof]
#[kani::unwind(6)]
fn c07_levels_codec_roundtrip() {
	let ids: [u64; 3] = kani::any();
	let mut l0: Vec<Arc<Table>> = Vec::with_capacity(2);
	l0.push(mk_table(ids[0], Some(&[1u8]), Some(&[2u8]), (Some(1), Some(1))));
	l0.push(mk_table(ids[1], Some(&[3u8]), Some(&[4u8]), (Some(1), Some(1))));
	let mut l1: Vec<Arc<Table>> = Vec::with_capacity(1);
	l1.push(mk_table(ids[2], Some(&[1u8]), Some(&[9u8]), (Some(1), Some(1))));
	let mut lv: Vec<Arc<Level>> = Vec::with_capacity(2);
	lv.push(Arc::new(Level { tables: l0 }));
	lv.push(Arc::new(Level { tables: l1 }));
	let levels = Levels(lv);
	let mut buf: Vec<u8> = Vec::with_capacity(32);
	let r = levels.encode(&mut buf);
	let ok = r.is_ok();
	core::mem::forget(r);
	assert!(ok, "Levels::encode failed");
	assert!(buf.len() == 1 + 4 + 16 + 4 + 8, "manifest level section has an unexpected size");
	let mut rd: &[u8] = &buf[..];
	let d = Levels::decode(&mut rd);
	match &d {
		Ok(v) => {
			assert!(v.len() == 2 && v[0].len() == 2 && v[1].len() == 1, "level shape changed in the round trip");
			assert!(v[0][0] == ids[0] && v[0][1] == ids[1] && v[1][0] == ids[2], "table ids changed or reordered in the round trip");
		}
		Err(_) => assert!(false, "level section written by encode is rejected by decode"),
	}
	assert!(rd.is_empty(), "decode did not consume the whole level section");
	kani::cover!(ids[0] > u32::MAX as u64, "table id above 32 bits");
	kani::cover!(ids[0] == ids[2], "same id on two levels (decode does not care)");
	core::mem::forget(d);
	core::mem::forget(levels);
	core::mem::forget(buf);
}

/// C07-O2b: the level-count byte of the manifest is unsigned (Options::level_count is a u8 and only 0
/// is rejected, so a store with 128..=255 levels is valid): for EVERY count byte n, decoding a level
/// section that was cut off right after the count byte returns Ok(no levels) for n = 0 and an error for
/// n >= 1 - it never panics (a count read as a signed byte turns 128..=255 into a huge allocation).
/// The full round trip with >= 128 levels needs 128 unwindings of Vec-pushing loops and did not finish
/// in 15 minutes; this formulation reaches the same byte with one iteration.
#[kani::proof]
#[kani::unwind(6)]
fn c07_levels_count_byte_is_unsigned() {
	let n: u8 = kani::any();
	let img = [n];
	let mut rd: &[u8] = &img[..];
	let d = Levels::decode(&mut rd);
	match &d {
		Ok(v) => assert!(n == 0 && v.is_empty(), "cut-off level section accepted"),
		Err(_) => assert!(n >= 1, "empty level section rejected"),
	}
	kani::cover!(n >= 128 && d.is_err(), "count byte >= 128 handled as a count");
	kani::cover!(n == 0, "no levels");
	core::mem::forget(d);
}

/// a table whose smallest key carries the sequence number `seq` (as the first entry of a real table does)
fn mk_table_seq(id: u64, key: &[u8], seq: u64) -> Arc<Table> {
	let t = mk_table(id, Some(key), Some(key), (Some(1), Some(seq)));
	let mut t = t;
	if let Some(m) = Arc::get_mut(&mut t) {
		m.meta.smallest_point = Some(crate::InternalKey::new(key.to_vec(), seq, crate::InternalKeyKind::Set, 0));
	}
	t
}

/// C01/C06: the search order inside a level.  Level 0 is searched newest first: `insert` keeps the
/// tables ordered by their LARGEST sequence number, descending, whatever the insertion order;
/// levels >= 1 are binary-searched by key: `insert_sorted_by_key` keeps them ordered by smallest key.
fn level_insert_keeps_search_order(nt: usize) {
	let hi: [u64; 3] = kani::any();
	// smallest keys of one or two bytes (a key and the same key followed by 0x00 included)
	let k: [[u8; 2]; 3] = kani::any();
	let kl: [usize; 3] = kani::any();
	let by_key: bool = kani::any();
	let mut level = Level { tables: Vec::with_capacity(4) };
	let mut i = 0;
	while i < nt {
		kani::assume(hi[i] >= 1 && hi[i] < (1 << 56));
		kani::assume(kl[i] >= 1 && kl[i] <= 2);
		let t = mk_table_seq(i as u64 + 1, &k[i][..kl[i]], hi[i]);
		if by_key {
			level.insert_sorted_by_key(t);
		} else {
			level.insert(t);
		}
		i += 1;
	}
	assert!(level.tables.len() == nt, "a table was lost on insertion");
	let mut j = 1;
	while j < nt {
		let (a, b) = (&level.tables[j - 1], &level.tables[j]);
		if by_key {
			let (ka, kb) = (a.meta.smallest_point.as_ref().unwrap(), b.meta.smallest_point.as_ref().unwrap());
			assert!(ka.user_key <= kb.user_key, "level >= 1 not ordered by smallest key after insert_sorted_by_key");
		} else {
			assert!(a.meta.properties.seqnos.1 >= b.meta.properties.seqnos.1, "level 0 not ordered newest-first after insert");
		}
		j += 1;
	}
	kani::cover!(!by_key && hi[0] < hi[1], "L0: tables inserted oldest first");
	kani::cover!(by_key && k[0][0] > k[1][0], "L1: tables inserted in descending key order");
	kani::cover!(by_key && kl[0] == 1 && kl[1] == 2 && k[1][0] == k[0][0] && k[1][1] == 0, "a key and the same key followed by 0x00");
	core::mem::forget(level);
}
