// C12 (read side): writer -> segment image -> reader, on slice `wal_rw`: the text of src/wal/writer.rs and
// src/wal/reader.rs compiled with BLOCK_SIZE = 32 (instead of 32 KiB) over an in-memory segment
// (verif_models::walfs).  The framing logic, fragment sequencing, CRC verification and tail handling are
// the repository's; only the block size constant and the file are substituted, so that block boundaries,
// fragmentation and truncation points all fall inside a segment CBMC can hold.
// Native replay runs this same slice natively (replay_mode = slice): the real constant cannot be
// replayed with 60-byte segments.
use super::reader::Reader;
use super::writer::Writer;
use super::*;
use crate::verif_models::walfs::{self, MFile, MWalFile};
use crate::wal::{CompressionType, Error};

// LZ4 segments are outside the claim: reaching either function is reported as a failure
fn stub_lz4_compress(_input: &[u8]) -> Vec<u8> {
	panic!("verif: LZ4 path reached in an uncompressed segment");
}

/// outcome of one Reader::read(): Some(len) + bytes copied out, or None on error
fn read_one(r: &mut Reader, out: &mut [u8; 40]) -> Option<usize> {
	let res = r.read();
	let v = match &res {
		Ok((rec, _off)) => {
			let n = rec.len();
			assert!(n <= 40, "record longer than anything written");
			let mut i = 0;
			while i < n {
				out[i] = rec[i];
				i += 1;
			}
			Some(n)
		}
		Err(_) => None,
	};
	core::mem::forget(res);
	v
}

/// Two records of A and B symbolic payload bytes are appended from the start of a segment; the segment
/// is then cut at a symbolic byte offset (cut == length: untouched) and read back.
/// Reading yields exactly the records that lie wholly before the cut, byte-identical and in order,
/// and then an error (end of log / corruption) - never a record that was not written.
fn roundtrip_and_truncation<const A: usize, const B: usize>() {
	let pa: [u8; A] = kani::any();
	let pb: [u8; B] = kani::any();
	walfs::reset();
	let mut w = Writer::new(MWalFile, true, CompressionType::None, 0);
	let r1 = w.add_record(&pa);
	let ok1 = r1.is_ok();
	core::mem::forget(r1);
	let end1 = walfs::len();
	let r2 = w.add_record(&pb);
	let ok2 = r2.is_ok();
	core::mem::forget(r2);
	let end2 = walfs::len();
	assert!(ok1 && ok2, "add_record failed");
	core::mem::forget(w);
	let cut: usize = kani::any();
	kani::assume(cut <= end2);
	let mut rd = Reader::new(MFile { pos: 0, limit: cut });
	let mut buf = [0u8; 40];
	// first read
	let g1 = read_one(&mut rd, &mut buf);
	#[cfg(verif_replay)]
	println!("REPLAY wal rw A={} B={} end1={} end2={} cut={} -> first read {:?}", A, B, end1, end2, cut, g1);
	if cut >= end1 {
		assert!(g1 == Some(A), "record lying wholly before the cut is not returned");
		let mut i = 0;
		while i < A {
			assert!(buf[i] == pa[i], "first record read back with different bytes");
			i += 1;
		}
		let g2 = read_one(&mut rd, &mut buf);
		#[cfg(verif_replay)]
		println!("REPLAY   second read {:?}", g2);
		if cut >= end2 {
			assert!(g2 == Some(B), "second record lying wholly before the cut is not returned");
			let mut j = 0;
			while j < B {
				assert!(buf[j] == pb[j], "second record read back with different bytes");
				j += 1;
			}
			let g3 = read_one(&mut rd, &mut buf);
			assert!(g3.is_none(), "a record that was never written is returned after the last one");
		} else {
			assert!(g2.is_none(), "a cut-off record is returned as data");
		}
	} else {
		assert!(g1.is_none(), "a cut-off record is returned as data");
		let g2 = read_one(&mut rd, &mut buf);
		assert!(g2.is_none(), "reader returns data after reporting the end of the log");
	}
	kani::cover!(cut == end2, "untouched segment read back completely");
	kani::cover!(cut > end1 && cut < end2, "cut inside the second record");
	kani::cover!(cut < end1 && cut > 0, "cut inside the first record");
	core::mem::forget(rd);
}

macro_rules! rw_case {
	($name:ident, $a:expr, $b:expr, $unwind:expr) => {
		#[kani::proof]
		#[kani::unwind($unwind)]
		#[kani::stub(std::fmt::format, crate::verif_models::no_format)]
		#[kani::stub(lz4_flex::compress_prepend_size, stub_lz4_compress)]
		fn $name() {
			roundtrip_and_truncation::<$a, $b>();
		}
	};
}

// (A, B): second record fits the first block / is fragmented First+Last / First+Middle+Last;
// first record leaves 0..6 bytes in the block (padding) etc.  BLOCK_SIZE = 32, header 7.
rw_case!(c12_rw_a3_b5, 3, 5, 34);
rw_case!(c12_rw_a3_b30, 3, 30, 34);
rw_case!(c12_rw_a20_b4, 20, 4, 34);
rw_case!(c12_rw_a0_b0, 0, 0, 34);
