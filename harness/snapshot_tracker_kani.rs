// C01-O4: the snapshot registry consulted by compaction keeps a horizon while ANY reader that
// registered it is alive, and hands compaction a sorted list.
//
// Under Kani: child of slice `snapshot_tracker` (SnapshotTracker's text from src/snapshot.rs compiled
// against verif_models::SkipSet).  Under --cfg verif_replay: child of the real src/snapshot.rs.
#[cfg(not(verif_replay))]
use super::SnapshotTracker;
#[cfg(verif_replay)]
use super::SnapshotTracker;

fn check_list(all: &[u64], live: &[(u64, bool)]) {
	// sorted (the precondition of CompactionIterator::find_earliest_visible_snapshot's binary search)
	let mut i = 1;
	while i < all.len() {
		assert!(all[i - 1] <= all[i], "snapshot list handed to compaction is not sorted");
		i += 1;
	}
	// every live reader's horizon is listed
	let mut j = 0;
	while j < live.len() {
		if live[j].1 {
			let mut found = false;
			let mut k = 0;
			while k < all.len() {
				if all[k] == live[j].0 {
					found = true;
				}
				k += 1;
			}
			assert!(found, "horizon of a live reader is missing from the snapshot registry");
		}
		j += 1;
	}
}

/// three readers register (equal horizons allowed), a symbolic subset of them finishes
#[kani::proof]
#[kani::unwind(7)]
fn c01_tracker_counts_readers() {
	let t = SnapshotTracker::new();
	let a: u64 = kani::any();
	let b: u64 = kani::any();
	let c: u64 = kani::any();
	kani::assume(a <= 3 && b <= 3 && c <= 3);
	let drop_a: bool = kani::any();
	let drop_b: bool = kani::any();
	let drop_c: bool = kani::any();
	t.register(a);
	t.register(b);
	t.register(c);
	if drop_a {
		t.unregister(a);
	}
	if drop_b {
		t.unregister(b);
	}
	if drop_c {
		t.unregister(c);
	}
	let all = t.get_all_snapshots();
	#[cfg(verif_replay)]
	println!("REPLAY tracker register {a},{b},{c}; unregister a:{drop_a} b:{drop_b} c:{drop_c} -> {:?} first={:?}", all, t.first());
	let live = [(a, !drop_a), (b, !drop_b), (c, !drop_c)];
	check_list(&all, &live);
	let first = t.first();
	let mut j = 0;
	while j < 3 {
		if live[j].1 {
			assert!(first.is_some() && first.unwrap() <= live[j].0, "first() above a live reader's horizon");
		}
		j += 1;
	}
	if drop_a && drop_b && drop_c {
		assert!(all.is_empty(), "registry not empty after every reader finished");
		assert!(first.is_none());
	}
	kani::cover!(a == b && drop_a && !drop_b, "two readers share a horizon and one finishes");
	kani::cover!(a != b && b != c && a != c && !drop_a && !drop_b && !drop_c, "three distinct live horizons");
	kani::cover!(drop_a && drop_b && drop_c, "all readers finished");
	core::mem::forget(all);
	core::mem::forget(t);
}
