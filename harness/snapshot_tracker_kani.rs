// C01-O4: the snapshot registry consulted by compaction keeps a horizon while ANY reader that
// registered it is alive, and hands compaction a sorted list.
//
// Under Kani: child of slice `snapshot_tracker` (SnapshotTracker's text from src/snapshot.rs compiled
// against verif_models::SkipSet).  Under --cfg verif_replay: child of the real src/snapshot.rs.
use super::SnapshotTracker;
#[cfg(not(verif_replay))]
use super::{Core, Snapshot};
#[cfg(not(verif_replay))]
use std::sync::Arc;

fn check_list(all: &[u64], live: &[(u64, bool)]) {
	// sorted (the precondition of CompactionIterator::find_earliest_visible_snapshot's binary search)
	let mut i = 1;
	while i < all.len() {
		assert!(all[i - 1] <= all[i], "snapshot list handed to compaction is not sorted");
		i += 1;
	}
	// every live reader's horizon is listed
	let mut j = 0;
	while j < live.len() {
		if live[j].1 {
			let mut found = false;
			let mut k = 0;
			while k < all.len() {
				if all[k] == live[j].0 {
					found = true;
				}
				k += 1;
			}
			assert!(found, "horizon of a live reader is missing from the snapshot registry");
		}
		j += 1;
	}
}

/// three readers register (equal horizons allowed), a symbolic subset of them finishes
#[kani::proof]
#[kani::unwind(7)]
fn c01_tracker_counts_readers() {
	let t = SnapshotTracker::new();
	let a: u64 = kani::any();
	let b: u64 = kani::any();
	let c: u64 = kani::any();
	kani::assume(a <= 3 && b <= 3 && c <= 3);
	let drop_a: bool = kani::any();
	let drop_b: bool = kani::any();
	let drop_c: bool = kani::any();
	t.register(a);
	t.register(b);
	t.register(c);
	if drop_a {
		t.unregister(a);
	}
	if drop_b {
		t.unregister(b);
	}
	if drop_c {
		t.unregister(c);
	}
	let all = t.get_all_snapshots();
	#[cfg(verif_replay)]
	println!("REPLAY tracker register {a},{b},{c}; unregister a:{drop_a} b:{drop_b} c:{drop_c} -> {:?} first={:?}", all, t.first());
	let live = [(a, !drop_a), (b, !drop_b), (c, !drop_c)];
	check_list(&all, &live);
	let first = t.first();
	let mut j = 0;
	while j < 3 {
		if live[j].1 {
			assert!(first.is_some() && first.unwrap() <= live[j].0, "first() above a live reader's horizon");
		}
		j += 1;
	}
	if drop_a && drop_b && drop_c {
		assert!(all.is_empty(), "registry not empty after every reader finished");
		assert!(first.is_none());
	}
	kani::cover!(a == b && drop_a && !drop_b, "two readers share a horizon and one finishes");
	kani::cover!(a != b && b != c && a != c && !drop_a && !drop_b && !drop_c, "three distinct live horizons");
	kani::cover!(drop_a && drop_b && drop_c, "all readers finished");
	core::mem::forget(all);
	core::mem::forget(t);
}


/// C01-O6: a snapshot registers the horizon it READS at.  Transaction::new loads the horizon and then
/// constructs the snapshot; commits may publish in between, so the visibility horizon `v` at
/// registration time can be above the horizon `h` the snapshot was handed.  What is registered (and
/// unregistered again on drop) must be h: compaction protects exactly what the tracker lists.
#[cfg(not(verif_replay))]
#[kani::proof]
#[kani::unwind(7)]
fn c01_snapshot_registers_its_own_horizon() {
	let h: u64 = kani::any();
	let v: u64 = kani::any();
	let other: u64 = kani::any();
	kani::assume(h <= v && v <= 3 && other <= 3);
	let core = Arc::new(Core { snapshot_tracker: SnapshotTracker::new(), visible: std::sync::atomic::AtomicU64::new(v) });
	core.snapshot_tracker.register(other); // some other live reader
	let s = Snapshot::new(Arc::clone(&core), h);
	assert!(s.seq_num == h, "snapshot does not read at the horizon it was given");
	let all = core.snapshot_tracker.get_all_snapshots();
	let mut listed = false;
	let mut k = 0;
	while k < all.len() {
		if all[k] == h {
			listed = true;
		}
		k += 1;
	}
	assert!(listed, "the horizon a live snapshot reads at is not in the registry compaction consults");
	core::mem::forget(all);
	drop(s);
	let after = core.snapshot_tracker.get_all_snapshots();
	assert!(after.len() == 1 && after[0] == other, "dropping a snapshot did not unregister exactly its own registration");
	kani::cover!(h < v, "a commit was published between the horizon load and the registration");
	kani::cover!(h == other, "two live snapshots share the horizon");
	core::mem::forget(after);
	core::mem::forget(core);
}

/// native replay of the same obligation on the real Snapshot / Core: a real store in a temp dir, a commit
/// to move the visibility horizon past h, then Snapshot::new(core, h)
#[cfg(verif_replay)]
#[kani::proof]
fn c01_snapshot_registers_its_own_horizon() {
	use std::sync::Arc;
	let h: u64 = kani::any();
	let v: u64 = kani::any();
	let other: u64 = kani::any();
	// (std only: the playback build also compiles the non-test library, where dev-dependencies are absent)
	let dir = std::env::temp_dir().join(format!("verif_c01_{}", std::process::id()));
	let _ = std::fs::remove_dir_all(&dir);
	std::fs::create_dir_all(&dir).unwrap();
	let opts = Arc::new(crate::Options { path: dir.clone(), ..Default::default() });
	let tree = crate::Tree::new(Arc::clone(&opts)).unwrap();
	let rt = tokio::runtime::Builder::new_current_thread().enable_all().build().unwrap();
	// move the real visibility horizon to at least h + 1 (so that h < visible whenever the solver chose h < v)
	for i in 0..=(v as usize) {
		let mut tx = tree.begin().unwrap();
		tx.set(format!("k{i}").as_bytes(), b"x").unwrap();
		rt.block_on(tx.commit()).unwrap();
	}
	let core = Arc::clone(&tree.core);
	let before = core.snapshot_tracker.get_all_snapshots();
	let s = super::Snapshot::new(Arc::clone(&core), h);
	let all = core.snapshot_tracker.get_all_snapshots();
	println!("REPLAY snapshot registration: h={} solver-v={} other={} real visible={} registry before={:?} after new={:?}", h, v, other, core.seq_num(), before, all);
	assert!(all.contains(&h), "the horizon a live snapshot reads at is not in the registry compaction consults");
	drop(s);
	assert!(core.snapshot_tracker.get_all_snapshots() == before, "dropping a snapshot did not unregister exactly its own registration");
	rt.block_on(tree.close()).unwrap();
	let _ = std::fs::remove_dir_all(&dir);
}
