// Harnesses attached to src/sstable/table.rs: table key-range predicates (C06-O2 / C13), footer and
// checksum-mask codecs (C13-O6, C16-O1..O3).  Also exports `mk_table` for the level / manifest harnesses.
use super::*;
use std::ops::Bound;

/// An `Arc<Table>` in which only `id`, `opts.comparator` and `meta` are initialised (exactly what the
/// range predicates, the level searches and the manifest validators read).  Touching any other field
/// is an invalid read that CBMC reports -> the run is inconclusive, never a pass.
/// The value must be `mem::forget`-ed by the caller.
pub(crate) fn mk_table(
	id: u64,
	smallest: Option<&[u8]>,
	largest: Option<&[u8]>,
	seqs: (Option<u64>, Option<u64>),
) -> Arc<Table> {
	let mut o: Arc<core::mem::MaybeUninit<Options>> = Arc::new_uninit();
	let op = Arc::get_mut(&mut o).unwrap().as_mut_ptr();
	let cmp: Arc<dyn Comparator> = Arc::new(crate::BytewiseComparator {});
	unsafe {
		core::ptr::addr_of_mut!((*op).comparator).write(cmp);
	}
	let opts: Arc<Options> = unsafe { o.assume_init() };
	let mut meta = TableMetadata::new();
	if let Some(s) = smallest {
		meta.smallest_point = Some(InternalKey::new(s.to_vec(), 1, InternalKeyKind::Set, 0));
	}
	if let Some(l) = largest {
		meta.largest_point = Some(InternalKey::new(l.to_vec(), 1, InternalKeyKind::Set, 0));
	}
	meta.smallest_seq_num = seqs.0;
	meta.largest_seq_num = seqs.1;
	if let (Some(a), Some(b)) = seqs {
		meta.properties.seqnos = (a, b);
	}
	let mut t: Arc<core::mem::MaybeUninit<Table>> = Arc::new_uninit();
	let tp = Arc::get_mut(&mut t).unwrap().as_mut_ptr();
	unsafe {
		core::ptr::addr_of_mut!((*tp).id).write(id);
		core::ptr::addr_of_mut!((*tp).opts).write(opts);
		core::ptr::addr_of_mut!((*tp).meta).write(meta);
		t.assume_init()
	}
}

pub(crate) fn any_key2() -> ([u8; 2], usize) {
	any_keyn::<2>()
}

pub(crate) fn any_keyn<const N: usize>() -> ([u8; N], usize) {
	let b: [u8; N] = kani::any();
	let l: usize = kani::any();
	kani::assume(l <= N);
	(b, l)
}

/// 0 = Unbounded, 1 = Included, 2 = Excluded
pub(crate) fn mk_bound<'a>(kind: u8, k: &'a [u8]) -> Bound<&'a [u8]> {
	match kind {
		0 => Bound::Unbounded,
		1 => Bound::Included(k),
		_ => Bound::Excluded(k),
	}
}

pub(crate) fn in_user_range(x: &[u8], lk: u8, lo: &[u8], uk: u8, hi: &[u8]) -> bool {
	let lo_ok = match lk {
		0 => true,
		1 => x >= lo,
		_ => x > lo,
	};
	let hi_ok = match uk {
		0 => true,
		1 => x <= hi,
		_ => x < hi,
	};
	lo_ok && hi_ok
}

/// C06-O2: key-range shortcuts never hide a table that holds a key of the query range.
/// For every table span [smallest, largest], every user range (all nine bound-kind combinations,
/// built by the real user_range_to_internal_range) and every user key x inside both:
/// the table is neither "before" nor "after" the range, and is_key_in_key_range(x) holds.
#[kani::proof]
#[kani::unwind(4)]
fn c06_table_range_predicates_never_hide_a_key() {
	table_range_predicates_never_hide_a_key::<2>();
}

/// the same for keys up to 4 bytes (thorough)
#[kani::proof]
#[kani::unwind(6)]
fn c06_table_range_predicates_never_hide_a_key_4() {
	table_range_predicates_never_hide_a_key::<4>();
}

fn table_range_predicates_never_hide_a_key<const N: usize>() {
	let (s, sl) = any_keyn::<N>();
	let (l, ll) = any_keyn::<N>();
	let (x, xl) = any_keyn::<N>();
	let (lo, lol) = any_keyn::<N>();
	let (hi, hil) = any_keyn::<N>();
	let (s, l, x, lo, hi) = (&s[..sl], &l[..ll], &x[..xl], &lo[..lol], &hi[..hil]);
	let lk: u8 = kani::any();
	let uk: u8 = kani::any();
	kani::assume(lk <= 2 && uk <= 2);
	kani::assume(s <= l);
	// x is a user key stored in the table and selected by the query
	kani::assume(s <= x && x <= l);
	kani::assume(in_user_range(x, lk, lo, uk, hi));
	// the table holds versions with sequence numbers in [seq_lo, seq_hi]; the reader's lookup key
	// carries its snapshot horizon `look`, and at least the table's oldest version is visible to it
	let seq_lo: u64 = kani::any();
	let seq_hi: u64 = kani::any();
	let look: u64 = kani::any();
	kani::assume(seq_lo >= 1 && seq_lo <= seq_hi && seq_hi < (1 << 56) && look >= seq_lo && look < (1 << 56));
	let t = mk_table(7, Some(s), Some(l), (Some(seq_lo), Some(seq_hi)));
	let range = crate::user_range_to_internal_range(mk_bound(lk, lo), mk_bound(uk, hi));
	let before = t.is_before_range(&range);
	let after = t.is_after_range(&range);
	let overlaps = t.overlaps_with_range(&range);
	let xin = t.is_key_in_key_range(&InternalKey::new(x.to_vec(), look, InternalKeyKind::Set, 0));
	#[cfg(verif_replay)]
	println!("REPLAY table [{:?},{:?}] x={:?} range lo({})={:?} hi({})={:?} -> before={} after={} overlaps={} key_in_range={}", s, l, x, lk, lo, uk, hi, before, after, overlaps, xin);
	assert!(!before, "table skipped as 'before the range' although it holds a key of the range");
	assert!(!after, "table skipped as 'after the range' although it holds a key of the range");
	assert!(overlaps, "overlaps_with_range false although the table holds a key of the range");
	assert!(xin, "is_key_in_key_range false for a key inside the table's span (a version visible to the reader may be in this table)");
	kani::cover!(look < seq_hi, "table also holds versions newer than the reader's horizon");
	kani::cover!(lk == 2 && x > lo && s <= lo, "excluded lower bound inside the table span");
	kani::cover!(uk == 2 && l >= hi, "excluded upper bound inside the table span");
	kani::cover!(uk == 1 && x == hi && x == s, "included upper bound equals the table's smallest key");
	kani::cover!(lk == 1 && x == lo && x == l, "included lower bound equals the table's largest key");
	core::mem::forget(range);
	core::mem::forget(t);
}

/// C06-O2c [added after seed C13-4]: the same shortcut fed with a range built from REAL boundary keys,
/// as compaction does (`combined_key_range` folds the smallest/largest InternalKeys of the selected
/// tables into (Included, Included) bounds that carry arbitrary sequence numbers and timestamps): a
/// table that holds a user key x inside the user-key span of the range is never classified before /
/// after it, whatever sequence numbers and timestamps the table's own boundary keys and the bounds
/// carry (all versions of a user key must be selected together).
#[kani::proof]
#[kani::unwind(4)]
fn c06_table_range_predicates_boundary_key_ranges() {
	let (s, sl) = any_keyn::<2>();
	let (l, ll) = any_keyn::<2>();
	let (x, xl) = any_keyn::<2>();
	let (lo, lol) = any_keyn::<2>();
	let (hi, hil) = any_keyn::<2>();
	let (s, l, x, lo, hi) = (&s[..sl], &l[..ll], &x[..xl], &lo[..lol], &hi[..hil]);
	kani::assume(s <= l && s <= x && x <= l && lo <= x && x <= hi);
	let seqs: [u64; 4] = kani::any();
	let ts: [u64; 4] = kani::any();
	kani::assume(seqs[0] < (1 << 56) && seqs[1] < (1 << 56) && seqs[2] < (1 << 56) && seqs[3] < (1 << 56));
	let t = mk_table(7, Some(s), Some(l), (Some(1), Some((1 << 56) - 1)));
	// give the table's boundary keys their own sequence numbers and timestamps
	let t = {
		let mut t = t;
		let tm = Arc::get_mut(&mut t).unwrap();
		tm.meta.smallest_point = Some(InternalKey::new(s.to_vec(), seqs[0], InternalKeyKind::Set, ts[0]));
		tm.meta.largest_point = Some(InternalKey::new(l.to_vec(), seqs[1], InternalKeyKind::Set, ts[1]));
		t
	};
	let range: crate::InternalKeyRange = (
		Bound::Included(InternalKey::new(lo.to_vec(), seqs[2], InternalKeyKind::Set, ts[2])),
		Bound::Included(InternalKey::new(hi.to_vec(), seqs[3], InternalKeyKind::Set, ts[3])),
	);
	let before = t.is_before_range(&range);
	let after = t.is_after_range(&range);
	let overlaps = t.overlaps_with_range(&range);
	#[cfg(verif_replay)]
	println!("REPLAY table [{:?} seq {} ts {},{:?} seq {} ts {}] x={:?} boundary-key range [{:?} seq {} ts {},{:?} seq {} ts {}] -> before={} after={} overlaps={}", s, seqs[0], ts[0], l, seqs[1], ts[1], x, lo, seqs[2], ts[2], hi, seqs[3], ts[3], before, after, overlaps);
	assert!(!before, "table skipped as 'before' a boundary-key range although it holds a user key of the range");
	assert!(!after, "table skipped as 'after' a boundary-key range although it holds a user key of the range");
	assert!(overlaps, "overlaps_with_range false for a boundary-key range although the table holds a user key of the range");
	kani::cover!(x == lo && x == l && ts[2] < ts[1] && seqs[2] < seqs[1], "lower bound = table's largest user key with older seq/timestamp");
	kani::cover!(x == hi && x == s && ts[3] > ts[0] && seqs[3] > seqs[0], "upper bound = table's smallest user key with newer seq/timestamp");
	core::mem::forget(range);
	core::mem::forget(t);
}

/// C06-O2 (witness only, so that the predicates are not vacuously 'false'): a table entirely below an
/// included lower bound / above an included upper bound is skipped.  COVER witnesses, not assertions:
/// a less precise predicate changes no answer.
#[kani::proof]
#[kani::unwind(4)]
fn c06_table_range_predicates_skip_disjoint_tables() {
	let (s, sl) = any_key2();
	let (l, ll) = any_key2();
	let (k, kl) = any_key2();
	let (s, l, k) = (&s[..sl], &l[..ll], &k[..kl]);
	kani::assume(s <= l);
	let t = mk_table(7, Some(s), Some(l), (Some(1), Some(1)));
	let below: bool = kani::any();
	if below {
		kani::assume(l < k);
		let range = crate::user_range_to_internal_range(Bound::Included(k), Bound::Unbounded);
		kani::cover!(t.is_before_range(&range) && !t.overlaps_with_range(&range), "disjoint table below the range is skipped");
		core::mem::forget(range);
	} else {
		kani::assume(k < s);
		let range = crate::user_range_to_internal_range(Bound::Unbounded, Bound::Included(k));
		kani::cover!(t.is_after_range(&range) && !t.overlaps_with_range(&range), "disjoint table above the range is skipped");
		core::mem::forget(range);
	}

	core::mem::forget(t);
}

// ---------------------------------------------------------------------------------- footer codecs

/// C16-O1: Footer::decode is total (never panics) on every 50-byte buffer that carries the magic.
#[kani::proof]
#[kani::unwind(12)]
#[kani::stub(std::fmt::format, crate::verif_models::no_format)]
fn c16_footer_decode_total() {
	let mut buf: [u8; TABLE_FULL_FOOTER_LENGTH] = kani::any();
	buf[TABLE_FOOTER_LENGTH..].copy_from_slice(&TABLE_MAGIC_FOOTER_ENCODED);
	let r = Footer::decode(&buf);
	kani::cover!(r.is_ok(), "footer accepted");
	kani::cover!(r.is_err(), "footer rejected");
	core::mem::forget(r);
}

/// C13-O6: footer / block-handle codec round trip for every field value the writer can produce
/// (handles of a file below 2^56 bytes).
#[kani::proof]
#[kani::unwind(12)]
#[kani::stub(std::fmt::format, crate::verif_models::no_format)]
fn c13_footer_roundtrip() {
	let mo: usize = kani::any();
	let ms: usize = kani::any();
	let io: usize = kani::any();
	let is: usize = kani::any();
	kani::assume(mo < (1 << 56) && ms < (1 << 56) && io < (1 << 56) && is < (1 << 56));
	let f = Footer::new(BlockHandle::new(mo, ms), BlockHandle::new(io, is));
	let mut buf = [0u8; TABLE_FULL_FOOTER_LENGTH];
	f.encode(&mut buf);
	let r = Footer::decode(&buf);
	match &r {
		Ok(g) => {
			assert!(g.meta_index.offset == mo && g.meta_index.size == ms, "meta index handle changed in the round trip");
			assert!(g.index.offset == io && g.index.size == is, "index handle changed in the round trip");
		}
		Err(_) => assert!(false, "footer written by encode is rejected by decode"),
	}
	kani::cover!(mo >= (1 << 49), "8-byte varint offset");
	kani::cover!(mo < 128 && ms < 128 && io < 128 && is < 128, "all one-byte varints");
	core::mem::forget(r);
}

/// C16-O3: mask/unmask of block checksums are inverse for every u32 (a stored masked CRC is
/// compared after unmasking: a non-inverse pair would reject good blocks or accept bad ones).
#[kani::proof]
fn c16_mask_unmask_inverse() {
	let c: u32 = kani::any();
	assert!(unmask(mask(c)) == c, "unmask(mask(c)) != c");
	assert!(mask(unmask(c)) == c, "mask(unmask(c)) != c");
	kani::cover!(mask(c) < c, "mask wraps");
	kani::cover!(mask(c) != c, "mask changes the value");
}

/// C16-O2: single-byte damage of a footer the writer produced, through the real entry point
/// `read_footer(file, file_size)` on an in-memory file.  f = any footer whose two handles lie inside
/// the file; the file's last 50 bytes = encode(f) with ONE byte changed to a different value.
/// read_footer must be total and yield Err, or the same handles (damage fell into the zero padding),
/// or handles that still lie INSIDE the file: read_bytes() allocates `handle.size` bytes
/// unconditionally, so a handle the footer check lets through with a size beyond the file (one flipped
/// varint continuation bit chains two varints: 2^42 for a table between 16 KiB and 2 MiB) aborts the
/// process on allocation instead of reporting corruption.
#[kani::proof]
#[kani::unwind(12)]
#[kani::stub(std::fmt::format, crate::verif_models::no_format)]
fn c16_footer_single_byte_damage() {
	const DATA: usize = 100; // bytes before the footer
	const FILE: usize = DATA + TABLE_FULL_FOOTER_LENGTH;
	let mo: usize = kani::any();
	let ms: usize = kani::any();
	let io: usize = kani::any();
	let is: usize = kani::any();
	let trailer = BLOCK_COMPRESS_LEN + BLOCK_CKSUM_LEN;
	kani::assume(mo <= DATA && ms <= DATA && mo + ms + trailer <= DATA);
	kani::assume(io <= DATA && is <= DATA && io + is + trailer <= DATA);
	let f = Footer::new(BlockHandle::new(mo, ms), BlockHandle::new(io, is));
	let mut buf = [0u8; TABLE_FULL_FOOTER_LENGTH];
	f.encode(&mut buf);
	let pos: usize = kani::any();
	let val: u8 = kani::any();
	kani::assume(pos < TABLE_FULL_FOOTER_LENGTH);
	kani::assume(val != buf[pos]);
	buf[pos] = val;
	let mut image = [0u8; FILE];
	image[DATA..].copy_from_slice(&buf);
	let file: Arc<dyn File> = Arc::new(image.to_vec());
	let r = read_footer(Arc::clone(&file), FILE);
	#[cfg(verif_replay)]
	println!("REPLAY footer damage: handles meta=({},{}) index=({},{}) byte {} := {:#x} -> {:?}", mo, ms, io, is, pos, val, r.as_ref().map(|g| (g.meta_index.clone(), g.index.clone())).map_err(|e| e.to_string()));
	match &r {
		Ok(g) => {
			let same = g.meta_index.offset == mo && g.meta_index.size == ms && g.index.offset == io && g.index.size == is;
			assert!(pos >= 2 && pos < TABLE_FOOTER_LENGTH, "damage to magic / format / checksum type accepted");
			if !same {
				let m_in = g.meta_index.size <= DATA && g.meta_index.offset <= DATA && g.meta_index.offset + g.meta_index.size + trailer <= DATA;
				let i_in = g.index.size <= DATA && g.index.offset <= DATA && g.index.offset + g.index.size + trailer <= DATA;
				assert!(m_in && i_in, "damaged footer accepted with a block handle outside the file (its size drives an unchecked allocation)");
			}
			kani::cover!(same, "damage in the padding: same handles");
			kani::cover!(!same, "damage changed a handle but it still lies inside the file (left to the block checksum)");
		}
		Err(_) => {}
	}
	kani::cover!(r.is_err() && pos >= 2 && pos < 34, "damage inside a handle rejected");
	core::mem::forget(r);
	core::mem::forget(file);
}

/// C16-O2b (non-vacuity of the footer validation): an undamaged footer whose handles lie inside the
/// file is accepted by read_footer with exactly those handles.
#[kani::proof]
#[kani::unwind(12)]
#[kani::stub(std::fmt::format, crate::verif_models::no_format)]
fn c16_read_footer_accepts_valid_footer() {
	const DATA: usize = 100;
	const FILE: usize = DATA + TABLE_FULL_FOOTER_LENGTH;
	let mo: usize = kani::any();
	let ms: usize = kani::any();
	let io: usize = kani::any();
	let is: usize = kani::any();
	let trailer = BLOCK_COMPRESS_LEN + BLOCK_CKSUM_LEN;
	kani::assume(mo <= DATA && ms <= DATA && mo + ms + trailer <= DATA);
	kani::assume(io <= DATA && is <= DATA && io + is + trailer <= DATA);
	let f = Footer::new(BlockHandle::new(mo, ms), BlockHandle::new(io, is));
	let mut buf = [0u8; TABLE_FULL_FOOTER_LENGTH];
	f.encode(&mut buf);
	let mut image = [0u8; FILE];
	image[DATA..].copy_from_slice(&buf);
	let file: Arc<dyn File> = Arc::new(image.to_vec());
	let r = read_footer(Arc::clone(&file), FILE);
	match &r {
		Ok(g) => assert!(g.meta_index.offset == mo && g.meta_index.size == ms && g.index.offset == io && g.index.size == is),
		Err(_) => assert!(false, "valid footer rejected"),
	}
	kani::cover!(mo + ms + trailer == DATA, "meta index block ends exactly at the footer");
	kani::cover!(is == 0, "empty index block");
	core::mem::forget(r);
	core::mem::forget(file);
}

/// C16-O5: truncated table files: read_footer is total on every file of 0..=60 bytes (arbitrary
/// content): it never panics (no arithmetic underflow on the footer offset, no out-of-range read)
/// and files shorter than a full footer are rejected.
#[kani::proof]
#[kani::unwind(12)]
#[kani::stub(std::fmt::format, crate::verif_models::no_format)]
fn c16_read_footer_total_on_short_files() {
	const MAXF: usize = 60;
	let image: [u8; MAXF] = kani::any();
	let file_size: usize = kani::any();
	kani::assume(file_size <= MAXF);
	let file: Arc<dyn File> = Arc::new(image[..file_size].to_vec());
	let r = read_footer(Arc::clone(&file), file_size);
	#[cfg(verif_replay)]
	println!("REPLAY read_footer on a {}-byte file -> ok={}", file_size, r.is_ok());
	if file_size < TABLE_FULL_FOOTER_LENGTH {
		assert!(r.is_err(), "file shorter than a footer accepted");
	}
	kani::cover!(r.is_err() && file_size >= TABLE_FULL_FOOTER_LENGTH, "full-size file rejected (bad magic / handles)");
	kani::cover!(file_size == TABLE_FULL_FOOTER_LENGTH - 1, "one byte short of a footer");
	core::mem::forget(r);
	core::mem::forget(file);
}

/// C16-O2c: ANY footer content (all 42 footer bytes arbitrary, magic intact - i.e. damage of any number
/// of bytes): whatever read_footer accepts has both block handles, including their trailers, inside
/// the file - sizes that would overflow `usize` included.
#[kani::proof]
#[kani::unwind(12)]
#[kani::stub(std::fmt::format, crate::verif_models::no_format)]
fn c16_read_footer_never_accepts_handles_outside_file() {
	const DATA: usize = 100;
	const FILE: usize = DATA + TABLE_FULL_FOOTER_LENGTH;
	let mut buf: [u8; TABLE_FULL_FOOTER_LENGTH] = kani::any();
	buf[TABLE_FOOTER_LENGTH..].copy_from_slice(&TABLE_MAGIC_FOOTER_ENCODED);
	let mut image = [0u8; FILE];
	image[DATA..].copy_from_slice(&buf);
	let file: Arc<dyn File> = Arc::new(image.to_vec());
	let r = read_footer(Arc::clone(&file), FILE);
	let trailer = BLOCK_COMPRESS_LEN + BLOCK_CKSUM_LEN;
	match &r {
		Ok(g) => {
			#[cfg(verif_replay)]
			println!("REPLAY read_footer accepted handles meta={:?} index={:?} in a {}-byte file", g.meta_index, g.index, FILE);
			let m_in = g.meta_index.size <= DATA && g.meta_index.offset <= DATA && g.meta_index.offset + g.meta_index.size + trailer <= DATA;
			let i_in = g.index.size <= DATA && g.index.offset <= DATA && g.index.offset + g.index.size + trailer <= DATA;
			assert!(m_in && i_in, "footer accepted with a block handle outside the file (its size drives an unchecked allocation)");
		}
		Err(_) => {}
	}
	kani::cover!(r.is_ok(), "some arbitrary footer accepted");
	kani::cover!(r.is_err(), "some arbitrary footer rejected");
	core::mem::forget(r);
	core::mem::forget(file);
}
