// C16-O4: value-pointer codecs (src/vlog.rs): the pointer an SSTable entry stores for a separated
// value must come back bit-exact, and decoding arbitrary bytes must never panic.
use super::*;

#[kani::proof]
#[kani::unwind(27)]
#[kani::stub(std::fmt::format, crate::verif_models::no_format)]
fn c16_value_pointer_roundtrip() {
	let p = ValuePointer {
		version: kani::any(),
		file_id: kani::any(),
		offset: kani::any(),
		key_size: kani::any(),
		value_size: kani::any(),
		checksum: kani::any(),
	};
	let enc = p.encode();
	assert!(enc.len() == VALUE_POINTER_SIZE, "encoded pointer has the wrong size");
	let d = ValuePointer::decode(&enc);
	match &d {
		Ok(q) => assert!(
			q.version == p.version && q.file_id == p.file_id && q.offset == p.offset && q.key_size == p.key_size && q.value_size == p.value_size && q.checksum == p.checksum,
			"value pointer changed in the round trip"
		),
		Err(_) => assert!(false, "pointer written by encode is rejected by decode"),
	}
	kani::cover!(p.offset > u32::MAX as u64, "offset above 4 GiB");
	kani::cover!(p.file_id == u32::MAX, "largest file id");
	core::mem::forget(d);
	core::mem::forget(enc);
}

/// decode is total: any byte string of length 0..=26 gives Ok (iff 25 bytes) or Err, never a panic
#[kani::proof]
#[kani::unwind(28)]
#[kani::stub(std::fmt::format, crate::verif_models::no_format)]
fn c16_value_pointer_decode_total() {
	let buf: [u8; 26] = kani::any();
	let len: usize = kani::any();
	kani::assume(len <= 26);
	let d = ValuePointer::decode(&buf[..len]);
	// (never panics; a pointer of the right size is accepted - what it does with other sizes is its own business)
	if len == VALUE_POINTER_SIZE {
		assert!(d.is_ok(), "decode rejects a right-sized pointer");
	}
	kani::cover!(d.is_ok(), "accepted");
	kani::cover!(d.is_err() && len < VALUE_POINTER_SIZE, "short input rejected");
	core::mem::forget(d);
}

/// ValueLocation (meta byte, version byte, payload) round trip with a pointer payload
#[kani::proof]
#[kani::unwind(30)]
#[kani::stub(std::fmt::format, crate::verif_models::no_format)]
fn c16_value_location_roundtrip() {
	let meta: u8 = kani::any();
	let version: u8 = kani::any();
	let payload: [u8; 3] = kani::any();
	let len: usize = kani::any();
	kani::assume(len <= 3);
	let loc = ValueLocation::new(meta, payload[..len].to_vec(), version);
	let enc = loc.encode();
	assert!(enc.len() == 2 + len);
	let d = ValueLocation::decode(&enc);
	match &d {
		Ok(q) => {
			assert!(q.meta == meta && q.version == version && q.value.len() == len, "value location header changed");
			let mut i = 0;
			while i < len {
				assert!(q.value[i] == payload[i], "inline value bytes changed");
				i += 1;
			}
			assert!(q.is_value_pointer() == ((meta & BIT_VALUE_POINTER) != 0));
		}
		Err(_) => assert!(false, "location written by encode is rejected by decode"),
	}
	kani::cover!(len == 0, "empty inline value");
	kani::cover!(len == 3 && (meta & 1) == 1, "pointer flag set");
	core::mem::forget(d);
	core::mem::forget(enc);
	core::mem::forget(loc);
}
