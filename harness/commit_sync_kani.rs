// C04 / C05 / C15: the WHOLE body of CommitPipeline::commit, sequential commits.
//
// Under Kani: child of slice `commit_sync_file`: src/commit.rs with commit() turned into a synchronous
// function (the write-stall wait removed, semaphore acquire and the wait for the own completion made
// immediate), compiled against verif_models::{MBatch, merr, Mutex, oneshot, Semaphore} and the oracle
// slice.  Everything between the await points - background-error gate, critical section (check ->
// seq allocation -> oracle publish -> stamp -> enqueue -> WAL), WAL-failure arm, apply, apply-failure
// path, mark_applied, publish - is the repository's text.
// Under --cfg verif_replay: child of the real src/commit.rs; the same scenario is driven through the
// real async commit() on a current-thread tokio runtime with a mock CommitEnv.
//
// What the mock environment observes AT the two call-backs is the heart of the harness:
//   write():  write_mutex is held, the batch is stamped with the seq it is written under, that seq is
//             the next one of the log, the oracle already carries the batch's stamp, the batch is queued
//   apply():  write_mutex is NOT held, and the visibility horizon is still BELOW the batch's first
//             seq (nothing of a transaction is visible while it is being applied)
use super::*;

use core::cell::Cell;

const KEYS: [u8; 3] = [b'a', b'b', b'c'];

struct Obs {
	/// the pipeline's horizon and oracle are shared with the mock environment through their Arcs (no raw
	/// pointer back to the pipeline under Kani: CBMC cannot resolve it and splits on every object)
	visible: Arc<AtomicU64>,
	#[cfg(not(verif_replay))]
	oracle: Arc<CommitOracle>,
	#[cfg(verif_replay)]
	pipe: Cell<*const CommitPipeline>,
	fail_write: Cell<bool>,
	fail_apply: Cell<bool>,
	fail_background: Cell<bool>,
	writes: Cell<u32>,
	applies: Cell<u32>,
	last_write_seq: Cell<u64>,
	expect_seq: Cell<u64>,
	expect_stamp: Cell<u64>,
	keys: Cell<[u8; 2]>,
	nkeys: Cell<usize>,
}
unsafe impl Send for Obs {}
unsafe impl Sync for Obs {}

impl Obs {
	#[cfg(not(verif_replay))]
	fn oracle(&self) -> &CommitOracle {
		&self.oracle
	}
	#[cfg(verif_replay)]
	fn oracle(&self) -> &CommitOracle {
		unsafe { &(*self.pipe.get()).oracle }
	}
	/// number of model mutexes currently held (Kani) / is write_mutex held (native)
	#[cfg(not(verif_replay))]
	fn write_mutex_held(&self) -> bool {
		crate::verif_models::mutexes_held() == 1
	}
	#[cfg(not(verif_replay))]
	fn no_mutex_held(&self) -> bool {
		crate::verif_models::mutexes_held() == 0
	}
	#[cfg(verif_replay)]
	fn write_mutex_held(&self) -> bool {
		unsafe { (*self.pipe.get()).write_mutex.is_locked() }
	}
	#[cfg(verif_replay)]
	fn no_mutex_held(&self) -> bool {
		unsafe { !(*self.pipe.get()).write_mutex.is_locked() }
	}
	fn new(visible: Arc<AtomicU64>) -> Self {
		Obs {
			visible,
			#[cfg(not(verif_replay))]
			oracle: Arc::new(CommitOracle::new()),
			#[cfg(verif_replay)]
			pipe: Cell::new(core::ptr::null()),
			fail_write: Cell::new(false),
			fail_apply: Cell::new(false),
			fail_background: Cell::new(false),
			writes: Cell::new(0),
			applies: Cell::new(0),
			last_write_seq: Cell::new(0),
			expect_seq: Cell::new(0),
			expect_stamp: Cell::new(0),
			keys: Cell::new([0; 2]),
			nkeys: Cell::new(0),
		}
	}
}

/// the failure mode is a const parameter of the environment TYPE: read from a Cell in the heap it is
/// symbolic to CBMC's constant propagation and every path of commit() is unwound
struct Env<const FAIL: u8>(Arc<Obs>);

/// FAIL = 10 * which + mode: mode 1 = WAL write fails, 2 = memtable apply fails, 3 = sticky background
/// error; which = 0: every commit, 1: the first commit that reaches the WAL, 2: the second
static mut COMMITS_AT_WAL: u8 = 0;
fn fails_now<const FAIL: u8>() -> bool {
	FAIL / 10 == 0 || unsafe { COMMITS_AT_WAL } == FAIL / 10
}

/// stamp the oracle currently records for key k
#[cfg(not(verif_replay))]
fn stamp_of(oracle: &CommitOracle, k: u8) -> Option<u64> {
	crate::verif_slice_oracle_me::verif_peek::stamp_of(oracle, &[k])
}
/// natively the real oracle is only observable through check(): stamp > s <=> check(k, s) conflicts
#[cfg(verif_replay)]
fn stamp_of(oracle: &CommitOracle, k: u8) -> Option<u64> {
	let kk = [k];
	let mut best = None;
	for s in 0..300u64 {
		if matches!(oracle.check(core::iter::once(&kk[..]), s), Err(Error::TransactionWriteConflict)) {
			best = Some(s + 1);
		}
	}
	best
}
fn key_has_stamp_above(oracle: &CommitOracle, k: u8, s: u64) -> bool {
	match stamp_of(oracle, k) {
		Some(v) => v > s,
		None => false,
	}
}

impl<const FAIL: u8> CommitEnv for Env<FAIL> {
	fn write(&self, batch: &Batch, seq_num: u64, _sync: bool) -> Result<Batch> {
		let o = &*self.0;
		o.writes.set(o.writes.get() + 1);
		unsafe {
			COMMITS_AT_WAL += 1;
		}
		o.last_write_seq.set(seq_num);
		assert!(o.write_mutex_held(), "WAL write outside the critical section");
		assert!(seq_num == o.expect_seq.get(), "commit did not take the next sequence number of the log");
		assert!(batch.starting_seq_num == seq_num, "batch written to the WAL without its sequence stamp");
		// oracle.publish happened before the WAL write, with the batch's highest seq
		let ks = o.keys.get();
		let mut i = 0;
		while i < o.nkeys.get() {
			assert!(key_has_stamp_above(o.oracle(), ks[i], o.expect_seq.get() - 1), "WAL write before the conflict stamp was published");
			assert!(!key_has_stamp_above(o.oracle(), ks[i], o.expect_stamp.get()), "conflict stamp above the batch's highest seq");
			i += 1;
		}
		if FAIL % 10 == 1 && fails_now::<FAIL>() {
			return Err(inj_err(1));
		}
		Ok(batch.clone())
	}
	fn apply(&self, batch: &Batch) -> Result<()> {
		let o = &*self.0;
		o.applies.set(o.applies.get() + 1);
		assert!(o.no_mutex_held(), "memtable apply inside the critical section");
		// atomic visibility: while a batch is being applied none of its seqs is visible yet
		assert!(o.visible.load(Ordering::Acquire) < o.last_write_seq.get(), "visibility horizon already covers a batch that is still being applied");
		let _ = batch;
		if FAIL % 10 == 2 && fails_now::<FAIL>() {
			return Err(inj_err(2));
		}
		Ok(())
	}
	fn check_background_error(&self) -> Result<()> {
		if FAIL % 10 == 3 {
			return Err(inj_err(3));
		}
		Ok(())
	}
	fn oldest_active_start_seq(&self) -> u64 {
		0
	}
}

// ---------------------------------------------------------------------------- back ends

#[cfg(not(verif_replay))]
fn inj_err(code: u8) -> Error {
	Error::Injected(code)
}
#[cfg(verif_replay)]
fn inj_err(code: u8) -> Error {
	Error::Other(format!("injected {code}"))
}

#[cfg(not(verif_replay))]
fn mk_batch(k0: u8, k1: u8, len: usize) -> Batch {
	Batch::new2(k0, k1, len)
}
#[cfg(verif_replay)]
fn mk_batch(k0: u8, k1: u8, len: usize) -> Batch {
	let mut b = Batch::new(0);
	let ks = [k0, k1];
	for k in ks.iter().take(len) {
		b.add_record(crate::InternalKeyKind::Set, vec![*k], Some(vec![1]), 0).unwrap();
	}
	b
}

#[cfg(not(verif_replay))]
fn mk_pipeline<const FAIL: u8>(obs: &Arc<Obs>, visible0: u64) -> Arc<CommitPipeline> {
	let stall: Arc<core::mem::MaybeUninit<WriteStallController>> = Arc::new_uninit();
	let stall: Arc<WriteStallController> = unsafe { stall.assume_init() };
	let p = core::ptr::null_mut::<CommitBatch>;
	let q = CommitQueue {
		head_tail: AtomicU64::new(0),
		slots: [
			AtomicPtr::new(p()),
			AtomicPtr::new(p()),
			AtomicPtr::new(p()),
			AtomicPtr::new(p()),
			AtomicPtr::new(p()),
			AtomicPtr::new(p()),
			AtomicPtr::new(p()),
			AtomicPtr::new(p()),
		],
	};
	let pipe = Arc::new(CommitPipeline {
		env: Arc::new(Env::<FAIL>(Arc::clone(obs))),
		log_seq_num: AtomicU64::new(visible0 + 1),
		visible_seq_num: Arc::clone(&obs.visible),
		oracle: Arc::clone(&obs.oracle),
		write_mutex: Mutex::new(()),
		pending: q,
		commit_sem: Arc::new(Semaphore::new(MAX_CONCURRENT_COMMITS - 1)),
		shutdown: AtomicBool::new(false),
		write_stall: stall,
	});
	pipe
}

#[cfg(verif_replay)]
struct NoStall;
#[cfg(verif_replay)]
impl crate::stall::WriteStallCountProvider for NoStall {
	fn get_stall_counts(&self) -> crate::stall::StallCounts {
		crate::stall::StallCounts { immutable_memtables: 0, l0_files: 0 }
	}
}
#[cfg(verif_replay)]
fn mk_pipeline<const FAIL: u8>(obs: &Arc<Obs>, visible0: u64) -> Arc<CommitPipeline> {
	let stall = Arc::new(WriteStallController::new(
		Arc::new(NoStall),
		crate::stall::StallThresholds { memtable_limit: 100, l0_file_limit: 100 },
	));
	let pipe = CommitPipeline::new(Arc::new(Env::<FAIL>(Arc::clone(obs))), Arc::clone(&obs.visible), stall);
	if visible0 > 0 {
		pipe.set_seq_num(visible0);
	}
	obs.pipe.set(Arc::as_ptr(&pipe));
	pipe
}

#[cfg(not(verif_replay))]
fn run_commit(p: &CommitPipeline, b: Batch, start: u64) -> Result<()> {
	p.commit(b, false, start)
}
#[cfg(verif_replay)]
fn run_commit(p: &CommitPipeline, b: Batch, start: u64) -> Result<()> {
	let rt = tokio::runtime::Builder::new_current_thread().enable_all().build().unwrap();
	rt.block_on(p.commit(b, false, start))
}

#[cfg(not(verif_replay))]
fn permits(p: &CommitPipeline) -> usize {
	p.commit_sem.permits.get()
}
#[cfg(verif_replay)]
fn permits(p: &CommitPipeline) -> usize {
	p.commit_sem.available_permits()
}

// ---------------------------------------------------------------------------- scenario

#[derive(Clone, Copy)]
struct Txn {
	k: [u8; 2],
	n: usize,
	start: u64,
	/// 0 = no failure, 1 = WAL write fails, 2 = memtable apply fails, 3 = sticky background error
	fail: u8,
}

/// n (number of entries) and the failure mode are the structural axis: concrete per harness instance
/// (a symbolic failure mode merges the control-flow paths through the queue loops and CBMC then unwinds
/// every CAS loop symbolically: 850 k steps, > 20 GB)
fn any_txn(n: usize, fail: u8) -> Txn {
	let i0: usize = kani::any();
	let i1: usize = kani::any();
	kani::assume(i0 < 3 && i1 < 3);
	Txn { k: [KEYS[i0], KEYS[i1]], n, start: kani::any(), fail }
}

fn has_key(t: &Txn, k: u8) -> bool {
	t.k[0] == k || (t.n == 2 && t.k[1] == k)
}

struct Done {
	ok: bool,
	conflict: bool,
	first: u64,
	last: u64,
	committed: bool,
}

/// one commit() call with every per-call obligation checked; `earlier` = the transactions that ran
/// before it together with their outcome (for the first-committer-wins reference answer)
fn commit_and_check(pipe: &CommitPipeline, obs: &Obs, t: &Txn, earlier: &[(Txn, Done)], exclude_f3: bool) -> Done {
	let vis_before = pipe.get_visible_seq_num();
	let log_before = pipe.log_seq_num.load(Ordering::SeqCst);
	assert!(log_before > vis_before, "next sequence number is not above the visibility horizon");
	kani::assume(t.start <= vis_before);
	obs.fail_write.set(t.fail == 1);
	obs.fail_apply.set(t.fail == 2);
	obs.fail_background.set(t.fail == 3);
	obs.expect_seq.set(log_before);
	obs.expect_stamp.set(log_before + t.n as u64 - 1);
	obs.keys.set(t.k);
	obs.nkeys.set(t.n);
	let w0 = obs.writes.get();
	let a0 = obs.applies.get();
	let r = run_commit(pipe, mk_batch(t.k[0], t.k[1], t.n), t.start);
	let ok = r.is_ok();
	let conflict = matches!(r, Err(Error::TransactionWriteConflict));
	let retry = matches!(r, Err(Error::TransactionRetry));
	core::mem::forget(r);
	let vis = pipe.get_visible_seq_num();
	let log_after = pipe.log_seq_num.load(Ordering::SeqCst);

	// reference answer of first-committer-wins over the transactions that really committed
	let mut want_conflict = false;
	let mut f3_shape = false;
	let mut e = 0;
	while e < earlier.len() {
		let (et, ed) = &earlier[e];
		let mut ki = 0;
		while ki < t.n {
			if has_key(et, t.k[ki]) {
				if ed.committed && ed.last > t.start {
					want_conflict = true;
				}
				// listed finding F3: a later FAILED writer of the same key erased this stamp
				let mut l = e + 1;
				while l < earlier.len() {
					if !earlier[l].1.committed && earlier[l].1.first != 0 && has_key(&earlier[l].0, t.k[ki]) && ed.committed {
						f3_shape = true;
					}
					l += 1;
				}
			}
			ki += 1;
		}
		e += 1;
	}
	assert!(!retry, "retry although the conflict window was never pruned");
	if t.fail == 3 {
		assert!(!ok && obs.writes.get() == w0 && log_after == log_before && vis == vis_before, "commit proceeded past a sticky background error");
		return Done { ok, conflict, first: 0, last: 0, committed: false };
	}
	if !(exclude_f3 && f3_shape) {
		if want_conflict {
			assert!(conflict, "lost update: a transaction that overlapped a committed writer of its key was allowed to commit");
		} else {
			assert!(!conflict, "a failed or non-overlapping transaction made a later commit fail with a conflict");
		}
	}
	if conflict {
		// rejected before anything was allocated, written or queued
		assert!(obs.writes.get() == w0 && obs.applies.get() == a0, "conflicting transaction reached the WAL");
		assert!(vis == vis_before, "conflicting transaction moved the horizon");
		check_quiescent(pipe);
		return Done { ok, conflict, first: 0, last: 0, committed: false };
	}
	let first = log_before;
	let last = log_before + t.n as u64 - 1;
	assert!(obs.writes.get() == w0 + 1, "commit without exactly one WAL write");
	if t.fail == 0 {
		assert!(log_after == last + 1, "sequence numbers consumed do not match the batch");
		assert!(ok, "commit without injected failure did not succeed");
		assert!(obs.applies.get() == a0 + 1, "successful commit without a memtable apply");
		assert!(vis == last, "commit() returned before its batch became visible (or exposed more than its batch)");
		let mut i = 0;
		while i < t.n {
			assert!(key_has_stamp_above(&pipe.oracle, t.k[i], first - 1), "committed batch left no conflict stamp");
			i += 1;
		}
	} else {
		assert!(!ok, "commit reported success although the WAL write / apply failed");
		if t.fail == 1 {
			assert!(obs.applies.get() == a0, "batch applied to the memtable although its WAL write failed");
		}
		// no trace in the conflict oracle: nothing stamps this batch's keys in its seq range any more
		let mut i = 0;
		while i < t.n {
			assert!(!key_has_stamp_above(&pipe.oracle, t.k[i], first - 1), "failed commit left a conflict stamp behind (poisons later commits)");
			i += 1;
		}
		assert!(vis == vis_before || vis == last, "failed commit moved the horizon to a place that is not a batch boundary");
	}
	assert!(log_after > vis, "next sequence number is not above the visibility horizon");
	check_quiescent(pipe);
	Done { ok, conflict, first, last, committed: ok }
}

fn check_quiescent(pipe: &CommitPipeline) {
	let (h, t) = pipe.pending.unpack(pipe.pending.head_tail.load(Ordering::Acquire));
	assert!(h == t, "commit returned with its batch still queued");
	assert!(!pipe.write_mutex.is_locked(), "commit returned holding write_mutex");
	assert!(permits(pipe) == MAX_CONCURRENT_COMMITS - 1, "commit leaked a flow-control permit");
}

/// ONE commit of a two-entry batch on a fresh pipeline, one failure mode per instance: every per-call
/// obligation of commit_and_check (critical-section structure observed at write(), atomic visibility
/// observed at apply(), no trace after a failure, quiescence, next seq above the horizon)
fn single_commit<const FAIL: u8>() {
	let fail = FAIL;
	let obs = Arc::new(Obs::new(Arc::new(AtomicU64::new(10))));
	let pipe = mk_pipeline::<FAIL>(&obs, 10);
	let a = any_txn(2, fail);
	let da = commit_and_check(&pipe, &obs, &a, &[], false);
	#[cfg(verif_replay)]
	println!("REPLAY commit keys={:?} n={} start={} fail(0 none,1 wal,2 apply,3 background)={} -> ok={} conflict={} seqs {}..{} visible={} next_seq={}", a.k, a.n, a.start, a.fail, da.ok, da.conflict, da.first, da.last, pipe.get_visible_seq_num(), pipe.log_seq_num.load(Ordering::SeqCst));
	kani::cover!(a.k[0] == a.k[1], "duplicate key inside one batch");
	kani::cover!(a.k[0] != a.k[1] && a.start == 10, "two distinct keys, transaction started at the horizon");
	core::mem::forget(pipe);
	core::mem::forget(obs);
}

#[kani::proof]
#[kani::unwind(4)]
fn c15_commit_single_ok() {
	single_commit::<0>();
}
#[kani::proof]
#[kani::unwind(4)]
fn c15_commit_single_wal_failure() {
	single_commit::<1>();
}
#[kani::proof]
#[kani::unwind(4)]
fn c15_commit_single_apply_failure() {
	single_commit::<2>();
}
#[kani::proof]
#[kani::unwind(4)]
fn c15_commit_single_background_error() {
	single_commit::<3>();
}

/// ONE commit on a pipeline whose conflict oracle already records an earlier committer: key `a` was
/// committed at sequence s0 (any s0 up to the current horizon).  The transaction (one key out of
/// {a,b,c}, any start <= horizon) is rejected with a conflict exactly when it writes `a` and started
/// before s0 - first committer wins through the whole commit() - and a rejected commit consumes no
/// sequence number, writes nothing and moves nothing.  (Histories of two and three full commit()
/// calls in ONE harness need > 40 GB; the earlier committer is therefore installed through the
/// oracle's own publish().)
#[kani::proof]
#[kani::unwind(4)]
fn c04_commit_first_committer_wins_from_prestate() {
	let obs = Arc::new(Obs::new(Arc::new(AtomicU64::new(10))));
	let pipe = mk_pipeline::<0>(&obs, 10);
	let s0: u64 = kani::any();
	kani::assume(s0 >= 1 && s0 <= 10);
	let ka = [b'a'];
	pipe.oracle.publish(core::iter::once(&ka[..]), s0, 1, 0);
	let earlier_txn = Txn { k: [b'a', b'a'], n: 1, start: 0, fail: 0 };
	let earlier = [(earlier_txn, Done { ok: true, conflict: false, first: s0, last: s0, committed: true })];
	let t = any_txn(1, 0);
	let d = commit_and_check(&pipe, &obs, &t, &earlier, false);
	#[cfg(verif_replay)]
	println!("REPLAY commit after an earlier committer of 'a' at seq {}: keys={:?} start={} -> ok={} conflict={}", s0, &t.k[..1], t.start, d.ok, d.conflict);
	kani::cover!(d.conflict, "overlapping writer of the same key rejected");
	kani::cover!(d.ok && t.k[0] == b'a', "writer of the same key that started after the earlier commit succeeds");
	kani::cover!(d.ok && t.k[0] != b'a' && t.start < s0, "overlapping writer of another key succeeds");
	core::mem::forget(pipe);
	core::mem::forget(obs);
}

// ---------------------------------------------------------------------------- critical-section structure

/// C04-O8: validation, sequence allocation and the oracle stamp happen inside ONE critical section:
/// between the start of commit() and the WAL write, the first mutex taken is write_mutex (the only
/// zero-sized-payload mutex) and every other lock (the oracle's) is taken while it is held.  A check
/// that runs before the lock is a check-then-act race: two overlapping writers of one key can both
/// validate and both commit (lost update).
///
/// Under Kani the order of lock acquisitions is read from the mutex model's log.  The native replay
/// (--cfg verif_replay) cannot observe lock order; it demonstrates the race itself on the REAL
/// commit(): a first committer is parked inside its WAL write (holding write_mutex) while two
/// transactions that started before it and write the same key call commit(); at most one may succeed.
#[cfg(not(verif_replay))]
#[kani::proof]
#[kani::unwind(4)]
fn c04_commit_validates_inside_the_critical_section() {
	let obs = Arc::new(Obs::new(Arc::new(AtomicU64::new(10))));
	let pipe = mk_pipeline::<0>(&obs, 10);
	let t = any_txn(1, 0);
	kani::assume(t.start <= 10);
	obs.expect_seq.set(11);
	obs.expect_stamp.set(11);
	obs.keys.set(t.k);
	obs.nkeys.set(1);
	crate::verif_models::lock_log_reset();
	let r = run_commit(&pipe, mk_batch(t.k[0], t.k[1], 1), t.start);
	let ok = r.is_ok();
	core::mem::forget(r);
	assert!(ok);
	let n = crate::verif_models::lock_log_len();
	assert!(n >= 3, "commit took fewer locks than write_mutex + oracle check + oracle publish");
	let (size0, held0) = crate::verif_models::lock_log_entry(0);
	assert!(size0 == 0 && held0 == 0, "the first lock commit() takes is not write_mutex: validation runs outside the critical section");
	// the oracle's check and publish (the next two acquisitions) are nested inside it
	let (s1, h1) = crate::verif_models::lock_log_entry(1);
	let (s2, h2) = crate::verif_models::lock_log_entry(2);
	assert!(s1 > 0 && h1 == 1 && s2 > 0 && h2 == 1, "oracle check / publish not nested inside write_mutex");
	kani::cover!(n >= 4, "further locks after the critical section (completion slot)");
	kani::cover!(t.k[0] == b'c', "any key");
	core::mem::forget(pipe);
	core::mem::forget(obs);
}

#[cfg(verif_replay)]
struct GateEnv {
	gate: Arc<(std::sync::Mutex<bool>, std::sync::Condvar)>,
	parked: Arc<AtomicBool>,
}
#[cfg(verif_replay)]
impl CommitEnv for GateEnv {
	fn write(&self, batch: &Batch, _seq_num: u64, _sync: bool) -> Result<Batch> {
		// the committer of key "slow" parks here, holding write_mutex, until the gate opens
		if batch.entries[0].key == b"slow" {
			self.parked.store(true, Ordering::SeqCst);
			let (m, c) = &*self.gate;
			let mut open = m.lock().unwrap();
			while !*open {
				open = c.wait(open).unwrap();
			}
		}
		Ok(batch.clone())
	}
	fn apply(&self, _b: &Batch) -> Result<()> {
		Ok(())
	}
	fn check_background_error(&self) -> Result<()> {
		Ok(())
	}
	fn oldest_active_start_seq(&self) -> u64 {
		0
	}
}

#[cfg(verif_replay)]
#[kani::proof]
fn c04_commit_validates_inside_the_critical_section() {
	// consume the solver's values so that the playback vector lines up; they do not matter here
	let _t = any_txn(1, 0);
	let gate = Arc::new((std::sync::Mutex::new(false), std::sync::Condvar::new()));
	let parked = Arc::new(AtomicBool::new(false));
	let stall = Arc::new(WriteStallController::new(
		Arc::new(NoStall),
		crate::stall::StallThresholds { memtable_limit: 100, l0_file_limit: 100 },
	));
	let pipe = CommitPipeline::new(
		Arc::new(GateEnv { gate: Arc::clone(&gate), parked: Arc::clone(&parked) }),
		Arc::new(AtomicU64::new(0)),
		stall,
	);
	let spawn = |key: &'static [u8]| {
		let p = Arc::clone(&pipe);
		std::thread::spawn(move || {
			let rt = tokio::runtime::Builder::new_current_thread().enable_all().build().unwrap();
			let mut b = Batch::new(0);
			b.add_record(crate::InternalKeyKind::Set, key.to_vec(), Some(vec![1]), 0).unwrap();
			rt.block_on(p.commit(b, false, 0))
		})
	};
	let t0 = spawn(b"slow");
	while !parked.load(Ordering::SeqCst) {
		std::thread::yield_now();
	}
	// both start before each other's commit (start_seq 0) and write the same key
	let t1 = spawn(b"K");
	let t2 = spawn(b"K");
	std::thread::sleep(std::time::Duration::from_millis(400));
	{
		let (m, c) = &*gate;
		*m.lock().unwrap() = true;
		c.notify_all();
	}
	let r0 = t0.join().unwrap();
	let r1 = t1.join().unwrap();
	let r2 = t2.join().unwrap();
	println!("REPLAY critical section race: slow={:?} K#1={:?} K#2={:?}", r0.is_ok(), r1.as_ref().map_err(|e| e.to_string()), r2.as_ref().map_err(|e| e.to_string()));
	assert!(r0.is_ok());
	assert!(!(r1.is_ok() && r2.is_ok()), "the first lock commit() takes is not write_mutex: validation runs outside the critical section (both overlapping writers of one key committed)");
}
