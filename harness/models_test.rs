// Native differential tests of the model containers against the real ones (run by bin/models_test,
// from setup).  Deterministic LCG-driven operation sequences.
use crate::verif_models::*;

struct Lcg(u64);
impl Lcg {
	fn next(&mut self) -> u64 {
		self.0 = self.0.wrapping_mul(6364136223846793005).wrapping_add(1442695040888963407);
		self.0 >> 33
	}
}

#[test]
fn smallmap_matches_std_hashmap() {
	let seed = std::env::var("VERIF_SEED").ok().and_then(|s| s.parse().ok()).unwrap_or(1u64);
	let mut rng = Lcg(seed);
	for _round in 0..2000 {
		let mut m: SmallMap<u64, u64> = SmallMap::new();
		let mut h: std::collections::HashMap<u64, u64> = std::collections::HashMap::new();
		for _ in 0..12 {
			let k = rng.next() % 3; // at most 3 distinct keys
			let v = rng.next() % 8;
			match rng.next() % 5 {
				0 | 1 => assert_eq!(m.insert(k, v), h.insert(k, v)),
				2 => assert_eq!(m.remove(&k), h.remove(&k)),
				3 => {
					m.retain(|_, x| *x >= v);
					h.retain(|_, x| *x >= v);
				}
				_ => {
					if rng.next() % 7 == 0 {
						m.clear();
						h.clear();
					}
				}
			}
			assert_eq!(m.len(), h.len());
			for kk in 0..3u64 {
				assert_eq!(m.get(&kk), h.get(&kk));
			}
		}
	}
}

fn skipset_round<T: Ord + Copy + Send + std::fmt::Debug + 'static>(rng: &mut Lcg, mk: &dyn Fn(u64, u64) -> T, lo: T, hi: T) {
	let m: SkipSet<T> = SkipSet::new();
	let r: crossbeam_skiplist::SkipSet<T> = crossbeam_skiplist::SkipSet::new();
	for _ in 0..14 {
		let v = mk(rng.next() % 3, rng.next() % 2);
		match rng.next() % 4 {
			0 | 1 => {
				if m.len() < 4 || m.contains(&v) {
					m.insert(v);
					r.insert(v);
				}
			}
			2 => {
				assert_eq!(m.remove(&v).is_some(), r.remove(&v).is_some());
			}
			_ => {
				// remove the first entry of a range through Entry::remove, as the fixed SnapshotTracker does
				let a = m.range(lo..=hi).next().map(|e| {
					let x = *e;
					assert!(e.remove());
					x
				});
				let b = r.range(lo..=hi).next().map(|e| {
					let x = *e;
					assert!(e.remove());
					x
				});
				assert_eq!(a, b);
			}
		}
		let mv: Vec<T> = m.iter().map(|e| *e).collect();
		let rv: Vec<T> = r.iter().map(|e| *e).collect();
		assert_eq!(mv, rv);
		assert_eq!(m.front().map(|e| *e.value()), r.front().map(|e| *e.value()));
		assert_eq!(m.len(), r.len());
		let v2 = mk(1, 0);
		let mr: Vec<T> = m.range(v2..).map(|e| *e).collect();
		let rr: Vec<T> = r.range(v2..).map(|e| *e).collect();
		assert_eq!(mr, rr);
	}
}

#[test]
fn skipset_matches_crossbeam() {
	let seed = std::env::var("VERIF_SEED").ok().and_then(|s| s.parse().ok()).unwrap_or(1u64);
	let mut rng = Lcg(seed ^ 0x9e3779b97f4a7c15);
	for _ in 0..2000 {
		skipset_round::<u64>(&mut rng, &|a, _b| a, 0, u64::MAX);
		skipset_round::<(u64, u64)>(&mut rng, &|a, b| (a, b), (1, 0), (1, u64::MAX));
	}
}

#[test]
fn fingerprint_model_is_injective() {
	let mut seen = std::collections::HashMap::new();
	let mut keys: Vec<Vec<u8>> = vec![vec![]];
	for a in 0..=255u8 {
		keys.push(vec![a]);
		for b in [0u8, 1, 0x61, 0x62, 0x7f, 0xff] {
			keys.push(vec![a, b]);
			keys.push(vec![b, a, 0]);
			keys.push(vec![0, 0, 0, 0, 0, a, b]);
		}
	}
	for k in keys {
		if let Some(prev) = seen.insert(fp_injective(&k), k.clone()) {
			assert_eq!(prev, k, "fingerprint model collides");
		}
	}
}

#[test]
fn mutex_model_is_a_cell() {
	let m = Mutex::new(5u32);
	{
		let mut g = m.lock();
		*g += 1;
		assert!(m.is_locked());
	}
	assert!(!m.is_locked());
	assert_eq!(*m.lock(), 6);
}
