//! Model containers used by the slices (DESIGN 3.3).  Set / map / cell semantics only.
#![allow(dead_code)]

use crate::{InternalKey, Value};

/// Stand-in for `Vec<(InternalKey, Value)>` (CompactionIterator::accumulated_versions) of at most N
/// entries.  `sort_by_key` / `dedup_by_key` do not reorder: they ASSERT that the content already is in
/// the order / already free of the duplicates the call would establish (the harness supplies the
/// versions of one key in strictly decreasing sequence order, which is what the merge iterator
/// yields), so a change of the sort key or direction in the sliced source is reported, not masked.
pub(crate) struct VersArr<const N: usize> {
	pub items: [(InternalKey, Value); N],
	pub len: usize,
}

impl<const N: usize> VersArr<N> {
	pub fn is_empty(&self) -> bool {
		self.len == 0
	}
	pub fn len(&self) -> usize {
		self.len
	}
	pub fn iter(&self) -> core::slice::Iter<'_, (InternalKey, Value)> {
		self.items[..self.len].iter()
	}
	pub fn clear(&mut self) {
		self.len = 0;
	}
	pub fn sort_by_key<K: Ord, F: FnMut(&(InternalKey, Value)) -> K>(&mut self, mut f: F) {
		let mut i = 1;
		while i < self.len {
			assert!(f(&self.items[i - 1]) <= f(&self.items[i]), "verif model: sort_by_key would reorder the versions");
			i += 1;
		}
	}
	pub fn dedup_by_key<K: PartialEq, F: FnMut(&mut (InternalKey, Value)) -> K>(&mut self, mut f: F) {
		let mut i = 1;
		while i < self.len {
			let a = f(&mut self.items[i - 1]);
			let b = f(&mut self.items[i]);
			assert!(a != b, "verif model: dedup_by_key would remove a version");
			i += 1;
		}
	}
}

impl<const N: usize> core::ops::Index<usize> for VersArr<N> {
	type Output = (InternalKey, Value);
	fn index(&self, i: usize) -> &(InternalKey, Value) {
		assert!(i < self.len, "verif model: index past the accumulated versions");
		&self.items[i]
	}
}

/// Stand-in for `Vec<(InternalKey, Value)>` (CompactionIterator::output_versions): records the
/// sequence numbers pushed, in push order.
pub(crate) struct OutRec<const N: usize> {
	pub seqs: [u64; N],
	pub n: usize,
}

impl<const N: usize> OutRec<N> {
	pub fn new() -> Self {
		Self { seqs: [0; N], n: 0 }
	}
	pub fn push(&mut self, item: (InternalKey, Value)) {
		assert!(self.n < N, "verif model: more versions output than input");
		self.seqs[self.n] = item.0.seq_num();
		self.n += 1;
		core::mem::forget(item);
	}
	pub fn is_empty(&self) -> bool {
		self.n == 0
	}
	pub fn kept(&self, seq: u64) -> bool {
		let mut i = 0;
		let mut k = false;
		while i < self.n {
			if self.seqs[i] == seq {
				k = true;
			}
			i += 1;
		}
		k
	}
}

// ---------------------------------------------------------------------------------------------
/// Stand-in for `crossbeam_skiplist::SkipSet<T>`: an ordered SET of at most 4 elements with the
/// subset of the API the sliced trackers use.  Set semantics: inserting a present element keeps one
/// copy; `remove` deletes it; `iter`/`range` ascend; `front` is the minimum.  Differentially tested
/// against the real SkipSet natively (`bin/check models`).
pub(crate) const SKIPSET_SLOTS: usize = 4;

pub(crate) struct SkipSet<T: Ord + Copy> {
	slots: [core::cell::Cell<Option<T>>; SKIPSET_SLOTS],
}

pub(crate) struct Entry<'a, T: Ord + Copy> {
	set: &'a SkipSet<T>,
	val: T,
}

impl<'a, T: Ord + Copy> Entry<'a, T> {
	pub fn value(&self) -> &T {
		&self.val
	}
	pub fn remove(&self) -> bool {
		self.set.remove(&self.val).is_some()
	}
}

impl<'a, T: Ord + Copy> core::ops::Deref for Entry<'a, T> {
	type Target = T;
	fn deref(&self) -> &T {
		&self.val
	}
}

pub(crate) struct SetIter<'a, T: Ord + Copy> {
	set: &'a SkipSet<T>,
	sorted: [Option<T>; SKIPSET_SLOTS],
	pos: usize,
}

impl<'a, T: Ord + Copy> Iterator for SetIter<'a, T> {
	type Item = Entry<'a, T>;
	fn next(&mut self) -> Option<Entry<'a, T>> {
		while self.pos < SKIPSET_SLOTS {
			let p = self.pos;
			self.pos += 1;
			if let Some(v) = self.sorted[p] {
				return Some(Entry { set: self.set, val: v });
			}
		}
		None
	}
}

impl<T: Ord + Copy> SkipSet<T> {
	pub fn new() -> Self {
		Self {
			slots: [
				core::cell::Cell::new(None),
				core::cell::Cell::new(None),
				core::cell::Cell::new(None),
				core::cell::Cell::new(None),
			],
		}
	}
	pub fn len(&self) -> usize {
		let mut n = 0;
		let mut i = 0;
		while i < SKIPSET_SLOTS {
			if self.slots[i].get().is_some() {
				n += 1;
			}
			i += 1;
		}
		n
	}
	pub fn is_empty(&self) -> bool {
		self.len() == 0
	}
	pub fn contains(&self, v: &T) -> bool {
		let mut i = 0;
		while i < SKIPSET_SLOTS {
			if self.slots[i].get() == Some(*v) {
				return true;
			}
			i += 1;
		}
		false
	}
	pub fn insert(&self, v: T) -> Entry<'_, T> {
		if !self.contains(&v) {
			let mut i = 0;
			let mut done = false;
			while i < SKIPSET_SLOTS {
				if !done && self.slots[i].get().is_none() {
					self.slots[i].set(Some(v));
					done = true;
				}
				i += 1;
			}
			assert!(done, "verif model: SkipSet capacity (4) exceeded");
		}
		Entry { set: self, val: v }
	}
	pub fn remove(&self, v: &T) -> Option<Entry<'_, T>> {
		let mut i = 0;
		let mut found = false;
		while i < SKIPSET_SLOTS {
			if self.slots[i].get() == Some(*v) {
				self.slots[i].set(None);
				found = true;
			}
			i += 1;
		}
		if found {
			Some(Entry { set: self, val: *v })
		} else {
			None
		}
	}
	fn sorted(&self) -> [Option<T>; SKIPSET_SLOTS] {
		// selection of the k-th smallest present element, k = 0..4
		let mut out: [Option<T>; SKIPSET_SLOTS] = [None; SKIPSET_SLOTS];
		let mut k = 0;
		let mut prev: Option<T> = None;
		while k < SKIPSET_SLOTS {
			let mut best: Option<T> = None;
			let mut i = 0;
			while i < SKIPSET_SLOTS {
				if let Some(v) = self.slots[i].get() {
					let above_prev = match prev {
						None => true,
						Some(p) => v > p,
					};
					let better = match best {
						None => true,
						Some(b) => v < b,
					};
					if above_prev && better {
						best = Some(v);
					}
				}
				i += 1;
			}
			out[k] = best;
			if best.is_none() {
				break;
			}
			prev = best;
			k += 1;
		}
		out
	}
	pub fn iter(&self) -> SetIter<'_, T> {
		SetIter { set: self, sorted: self.sorted(), pos: 0 }
	}
	pub fn range<R: core::ops::RangeBounds<T>>(&self, r: R) -> SetIter<'_, T> {
		let mut s = self.sorted();
		let mut i = 0;
		while i < SKIPSET_SLOTS {
			if let Some(v) = s[i] {
				if !r.contains(&v) {
					s[i] = None;
				}
			}
			i += 1;
		}
		SetIter { set: self, sorted: s, pos: 0 }
	}
	pub fn front(&self) -> Option<Entry<'_, T>> {
		match self.sorted()[0] {
			Some(v) => Some(Entry { set: self, val: v }),
			None => None,
		}
	}
}

// the real SkipSet is Send + Sync; the sliced trackers are stored in Arc and shared
unsafe impl<T: Ord + Copy> Sync for SkipSet<T> {}
unsafe impl<T: Ord + Copy> Send for SkipSet<T> {}

// ---------------------------------------------------------------------------------------------
/// Stand-in for `std::collections::HashMap<K, V>` with at most 3 entries (map semantics only).
pub(crate) const SMALLMAP_SLOTS: usize = 3;

pub(crate) struct SmallMap<K: Eq + Copy, V: Copy> {
	pub slots: [Option<(K, V)>; SMALLMAP_SLOTS],
}

impl<K: Eq + Copy, V: Copy> SmallMap<K, V> {
	pub fn new() -> Self {
		Self { slots: [None; SMALLMAP_SLOTS] }
	}
	pub fn len(&self) -> usize {
		let mut n = 0;
		let mut i = 0;
		while i < SMALLMAP_SLOTS {
			if self.slots[i].is_some() {
				n += 1;
			}
			i += 1;
		}
		n
	}
	pub fn is_empty(&self) -> bool {
		self.len() == 0
	}
	pub fn get(&self, k: &K) -> Option<&V> {
		let mut i = 0;
		while i < SMALLMAP_SLOTS {
			if let Some((kk, v)) = &self.slots[i] {
				if *kk == *k {
					return Some(v);
				}
			}
			i += 1;
		}
		None
	}
	pub fn contains_key(&self, k: &K) -> bool {
		self.get(k).is_some()
	}
	pub fn insert(&mut self, k: K, v: V) -> Option<V> {
		let mut i = 0;
		while i < SMALLMAP_SLOTS {
			if let Some((kk, old)) = self.slots[i] {
				if kk == k {
					self.slots[i] = Some((k, v));
					return Some(old);
				}
			}
			i += 1;
		}
		let mut j = 0;
		while j < SMALLMAP_SLOTS {
			if self.slots[j].is_none() {
				self.slots[j] = Some((k, v));
				return None;
			}
			j += 1;
		}
		panic!("verif model: SmallMap capacity (3) exceeded");
	}
	pub fn remove(&mut self, k: &K) -> Option<V> {
		let mut i = 0;
		while i < SMALLMAP_SLOTS {
			if let Some((kk, old)) = self.slots[i] {
				if kk == *k {
					self.slots[i] = None;
					return Some(old);
				}
			}
			i += 1;
		}
		None
	}
	pub fn retain<F: FnMut(&K, &mut V) -> bool>(&mut self, mut f: F) {
		let mut i = 0;
		while i < SMALLMAP_SLOTS {
			if let Some((k, mut v)) = self.slots[i] {
				if f(&k, &mut v) {
					self.slots[i] = Some((k, v));
				} else {
					self.slots[i] = None;
				}
			}
			i += 1;
		}
	}
	pub fn clear(&mut self) {
		self.slots = [None; SMALLMAP_SLOTS];
	}
}

/// Stand-in for `parking_lot::Mutex<T>` in sequential harnesses: a cell; locking a locked mutex
/// (self-deadlock in the real code) fails the harness.
static mut MUTEXES_HELD: u32 = 0;
/// log of lock acquisitions since the last reset: (size_of the protected value, mutexes held before)
static mut LOCK_LOG: [(usize, u32); 12] = [(0, 0); 12];
static mut LOCK_LOG_N: usize = 0;
pub(crate) fn lock_log_reset() {
	unsafe {
		LOCK_LOG_N = 0;
	}
}
pub(crate) fn lock_log_len() -> usize {
	unsafe { LOCK_LOG_N }
}
pub(crate) fn lock_log_entry(i: usize) -> (usize, u32) {
	unsafe { LOCK_LOG[i] }
}
/// how many model mutexes are held right now (sequential harnesses observe lock structure with it)
pub(crate) fn mutexes_held() -> u32 {
	unsafe { MUTEXES_HELD }
}

pub(crate) struct Mutex<T> {
	locked: core::cell::Cell<bool>,
	v: core::cell::UnsafeCell<T>,
}
unsafe impl<T> Sync for Mutex<T> {}
unsafe impl<T> Send for Mutex<T> {}

pub(crate) struct MutexGuard<'a, T> {
	m: &'a Mutex<T>,
}

impl<T> Mutex<T> {
	pub const fn new(v: T) -> Self {
		Self { locked: core::cell::Cell::new(false), v: core::cell::UnsafeCell::new(v) }
	}
	pub fn lock(&self) -> MutexGuard<'_, T> {
		assert!(!self.locked.get(), "verif model: mutex locked twice (self-deadlock)");
		self.locked.set(true);
		unsafe {
			if LOCK_LOG_N < 12 {
				LOCK_LOG[LOCK_LOG_N] = (core::mem::size_of::<T>(), MUTEXES_HELD);
				LOCK_LOG_N += 1;
			}
			MUTEXES_HELD += 1;
		}
		MutexGuard { m: self }
	}
	pub fn is_locked(&self) -> bool {
		self.locked.get()
	}
}

impl<'a, T> core::ops::Deref for MutexGuard<'a, T> {
	type Target = T;
	fn deref(&self) -> &T {
		unsafe { &*self.m.v.get() }
	}
}
impl<'a, T> core::ops::DerefMut for MutexGuard<'a, T> {
	fn deref_mut(&mut self) -> &mut T {
		unsafe { &mut *self.m.v.get() }
	}
}
impl<'a, T> Drop for MutexGuard<'a, T> {
	fn drop(&mut self) {
		self.m.locked.set(false);
		unsafe {
			MUTEXES_HELD -= 1;
		}
	}
}

/// Stand-in for `xxhash_rust::xxh3::xxh3_64`: INJECTIVE on keys of at most 7 bytes (bytes packed
/// little-endian, length in the top byte).  The oracle harnesses therefore claim "no fingerprint
/// collision among the keys used"; real xxh3 collisions are outside the claim.
pub(crate) fn fp_injective(key: &[u8]) -> u64 {
	assert!(key.len() <= 7, "verif model: fingerprint model covers keys up to 7 bytes");
	let mut r: u64 = (key.len() as u64) << 56;
	let mut i = 0;
	while i < key.len() {
		r |= (key[i] as u64) << (8 * i);
		i += 1;
	}
	r
}

/// Stub for std::fmt::format: error-message text is never part of a property; building it
/// symbolically costs minutes (DESIGN 3.4).
pub(crate) fn no_format(_args: core::fmt::Arguments<'_>) -> String {
	String::new()
}

// ---------------------------------------------------------------------------------------------
/// Stand-ins for `tokio::sync::{oneshot, Semaphore}` in the sequential commit-pipeline harnesses.
/// The oneshot channel only RECORDS the completion (how many sends, whether Ok, global order);
/// the payload is forgotten (an `Error` payload would drag io::Error drop glue into CBMC).
pub(crate) mod oneshot {
	use std::sync::Arc;

	pub(crate) static mut COMPLETION_CLOCK: u32 = 0;
	/// set by a harness to the pipeline's visible_seq_num: every completion then records the horizon
	/// AT THE MOMENT it is sent (what a committer resumed by it would observe)
	pub(crate) static mut HORIZON_PROBE: *const std::sync::atomic::AtomicU64 = core::ptr::null();

	pub(crate) struct Slot {
		pub sends: core::cell::Cell<u32>,
		pub ok: core::cell::Cell<bool>,
		pub order: core::cell::Cell<u32>,
		pub horizon_at_send: core::cell::Cell<u64>,
	}
	unsafe impl Sync for Slot {}
	unsafe impl Send for Slot {}

	pub(crate) struct Sender<T> {
		pub slot: Arc<Slot>,
		_p: core::marker::PhantomData<T>,
	}
	pub(crate) struct Receiver<T> {
		pub slot: Arc<Slot>,
		_p: core::marker::PhantomData<T>,
	}
	unsafe impl<T> Send for Sender<T> {}
	unsafe impl<T> Sync for Sender<T> {}
	unsafe impl<T> Send for Receiver<T> {}

	pub(crate) mod error {
		#[derive(Debug)]
		pub(crate) struct RecvError(pub ());
	}

	pub(crate) fn channel<T>() -> (Sender<T>, Receiver<T>) {
		let slot = Arc::new(Slot {
			sends: core::cell::Cell::new(0),
			ok: core::cell::Cell::new(false),
			order: core::cell::Cell::new(0),
			horizon_at_send: core::cell::Cell::new(u64::MAX),
		});
		(
			Sender { slot: Arc::clone(&slot), _p: core::marker::PhantomData },
			Receiver { slot, _p: core::marker::PhantomData },
		)
	}

	impl<E> Sender<Result<(), E>> {
		pub(crate) fn send(self, t: Result<(), E>) -> Result<(), Result<(), E>> {
			self.slot.sends.set(self.slot.sends.get() + 1);
			self.slot.ok.set(t.is_ok());
			unsafe {
				COMPLETION_CLOCK += 1;
				self.slot.order.set(COMPLETION_CLOCK);
				if !HORIZON_PROBE.is_null() {
					self.slot.horizon_at_send.set((*HORIZON_PROBE).load(std::sync::atomic::Ordering::Acquire));
				}
			}
			core::mem::forget(t);
			core::mem::forget(self);
			Ok(())
		}
	}

	impl<T> core::future::Future for Receiver<T> {
		type Output = Result<T, error::RecvError>;
		fn poll(self: core::pin::Pin<&mut Self>, _cx: &mut core::task::Context<'_>) -> core::task::Poll<Self::Output> {
			// never polled by the harnesses (commit() itself is outside what CBMC reaches)
			core::task::Poll::Pending
		}
	}
}

pub(crate) struct Semaphore {
	pub permits: core::cell::Cell<usize>,
}
unsafe impl Sync for Semaphore {}
unsafe impl Send for Semaphore {}
pub(crate) struct SemaphorePermit<'a> {
	s: &'a Semaphore,
}
#[derive(Debug)]
pub(crate) struct AcquireError(());
impl Semaphore {
	pub(crate) fn new(n: usize) -> Self {
		Self { permits: core::cell::Cell::new(n) }
	}
	pub(crate) async fn acquire(&self) -> Result<SemaphorePermit<'_>, AcquireError> {
		assert!(self.permits.get() > 0, "verif model: semaphore would block (sequential harness)");
		self.permits.set(self.permits.get() - 1);
		Ok(SemaphorePermit { s: self })
	}
}
impl<'a> Drop for SemaphorePermit<'a> {
	fn drop(&mut self) {
		self.s.permits.set(self.s.permits.get() + 1);
	}
}

// ---------------------------------------------------------------------------------------------
/// Stand-ins used ONLY by the synchronous whole-commit() slice (`commit_sync_file`):
/// * `merr`: an error enum with the variants commit()/oracle use and no payload that needs drop glue
///   (the real `Error` carries `Arc<io::Error>` and Strings: its drop glue for every dropped
///   `Result<_, Error>` is what made the full commit() run out of memory);
/// * `MBatch`: a batch of at most 2 one-byte keys (the pipeline only reads keys, count, emptiness and
///   stamps the starting sequence number).
pub(crate) mod merr {
	#[derive(Debug, Clone, Copy, PartialEq, Eq)]
	pub(crate) enum Error {
		PipelineStall,
		TransactionWriteConflict,
		TransactionRetry,
		CommitFail(()),
		/// injected by the harness's CommitEnv (WAL write / memtable apply / background error)
		Injected(u8),
	}
	pub(crate) type Result<T> = core::result::Result<T, Error>;
}

#[derive(Clone, Copy)]
pub(crate) struct MKey(pub [u8; 1]);
impl MKey {
	pub fn as_slice(&self) -> &[u8] {
		&self.0
	}
}
#[derive(Clone, Copy)]
pub(crate) struct MEntry {
	pub key: MKey,
}
#[derive(Clone, Copy)]
pub(crate) struct MEntries {
	pub items: [MEntry; 2],
	pub len: usize,
}
impl MEntries {
	pub fn iter(&self) -> core::slice::Iter<'_, MEntry> {
		self.items[..self.len].iter()
	}
}
#[derive(Clone, Copy)]
pub(crate) struct MBatch {
	pub entries: MEntries,
	pub starting_seq_num: u64,
}
impl MBatch {
	pub fn new2(k0: u8, k1: u8, len: usize) -> Self {
		MBatch { entries: MEntries { items: [MEntry { key: MKey([k0]) }, MEntry { key: MKey([k1]) }], len }, starting_seq_num: 0 }
	}
	pub fn count(&self) -> u32 {
		self.entries.len as u32
	}
	pub fn is_empty(&self) -> bool {
		self.entries.len == 0
	}
	pub fn set_starting_seq_num(&mut self, s: u64) {
		self.starting_seq_num = s;
	}
}

impl oneshot::Receiver<merr::Result<()>> {
	/// synchronous stand-in for `complete_rx.await`: Ok(result) once the completion fired,
	/// Err(RecvError) if it has not (a sequential harness cannot wait for another committer).
	pub(crate) fn take_now(self) -> core::result::Result<merr::Result<()>, oneshot::error::RecvError> {
		let r = if self.slot.sends.get() == 0 {
			Err(oneshot::error::RecvError(()))
		} else if self.slot.ok.get() {
			Ok(Ok(()))
		} else {
			Ok(Err(merr::Error::CommitFail(())))
		};
		core::mem::forget(self);
		r
	}
}

impl Semaphore {
	/// synchronous stand-in for `acquire().await`
	pub(crate) fn acquire_now(&self) -> core::result::Result<SemaphorePermit<'_>, AcquireError> {
		if self.permits.get() == 0 {
			return Err(AcquireError(()));
		}
		self.permits.set(self.permits.get() - 1);
		Ok(SemaphorePermit { s: self })
	}
}
