//! Model containers used by the slices (DESIGN 3.3).  Set / map / cell semantics only.
#![allow(dead_code)]
