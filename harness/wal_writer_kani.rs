// C12 (writer half of the framing): every byte sequence Writer::add_record emits obeys the frame
// format the Reader is written against, at every position relative to a 32 KiB block boundary.
// Attached to src/wal/writer.rs.  The output is read back from the never-flushed BufWriter (32 KiB
// capacity, < 64 bytes written) of a BufferedFileWriter over File::from_raw_fd(1000) that is never
// touched and is mem::forget-ed.
use super::*;
use std::os::fd::FromRawFd;

use crate::wal::{calculate_crc32, validate_record_type};

fn stub_crc_none(_init: u32, _amount: u64) -> Option<crc32fast::Hasher> {
	None
}

fn mk_writer(block_offset: usize) -> Writer {
	let file = unsafe { std::fs::File::from_raw_fd(1000) };
	let dest = BufferedFileWriter::new(file, BLOCK_SIZE);
	Writer::new(dest, true, CompressionType::None, block_offset)
}

fn be32(b: &[u8]) -> u32 {
	u32::from_be_bytes([b[0], b[1], b[2], b[3]])
}

/// One record of LEN symbolic payload bytes appended when LEFT bytes remain in the block.
/// The expected frame STRUCTURE (padding, fragment boundaries, types) is computed here from the two
/// concrete numbers by the format's rules; the emitted bytes are compared with it field by field.
/// (Lengths are never parsed back from the buffer to drive control flow: CBMC does not
/// constant-fold through the heap buffer and every length-driven loop would be unwound symbolically.)
fn frames_at_block_boundary<const LEN: usize>(left: usize) {
	let payload: [u8; LEN] = kani::any();
	let mut w = mk_writer(BLOCK_SIZE - left);
	let r = w.add_record(&payload);
	let ok = r.is_ok();
	core::mem::forget(r);
	assert!(ok, "add_record failed");
	let out: &[u8] = w.dest.writer.buffer();
	#[cfg(verif_replay)]
	println!("REPLAY wal writer left={} len={} payload={:?} -> {:?} block_offset={}", left, LEN, payload, out, w.block_offset);
	let mut pos = 0usize;
	let mut off = BLOCK_SIZE - left; // reference block offset
	// padding: fewer than HEADER_SIZE bytes left => exactly `left` zero bytes, then a fresh block
	if left < HEADER_SIZE {
		assert!(out.len() >= left, "padding missing");
		let mut i = 0;
		while i < left {
			assert!(out[i] == 0, "padding byte not zero");
			i += 1;
		}
		pos = left;
		off = 0;
	}
	let mut consumed = 0usize;
	let mut frag_index = 0usize;
	loop {
		// a header never straddles a block boundary
		assert!(off + HEADER_SIZE <= BLOCK_SIZE);
		let avail = BLOCK_SIZE - off - HEADER_SIZE;
		let want_len = if LEN - consumed < avail { LEN - consumed } else { avail };
		let is_end = consumed + want_len == LEN;
		let want_ty = if frag_index == 0 && is_end {
			RecordType::Full
		} else if frag_index == 0 {
			RecordType::First
		} else if is_end {
			RecordType::Last
		} else {
			RecordType::Middle
		};
		assert!(out.len() >= pos + HEADER_SIZE + want_len, "frame shorter than the format requires");
		let crc = be32(&out[pos..pos + 4]);
		let len = u16::from_be_bytes([out[pos + 4], out[pos + 5]]) as usize;
		let ty = out[pos + 6];
		assert!(len == want_len, "fragment length field differs from the format's rule");
		assert!(ty == want_ty as u8, "fragment type differs from the format's rule");
		// the reader's own sequencing rule accepts this fragment at this position
		let v = validate_record_type(want_ty, frag_index);
		let v_ok = v.is_ok();
		core::mem::forget(v);
		assert!(v_ok, "fragment type the reader rejects at this position");
		let mut i = 0;
		while i < want_len {
			assert!(out[pos + HEADER_SIZE + i] == payload[consumed + i], "payload bytes altered");
			i += 1;
		}
		// checksum exactly as the reader recomputes it over (type byte, fragment)
		assert!(crc == calculate_crc32(&[want_ty as u8], &payload[consumed..consumed + want_len]), "checksum differs from the reader's");
		consumed += want_len;
		pos += HEADER_SIZE + want_len;
		off += HEADER_SIZE + want_len;
		if is_end {
			break;
		}
		// a non-final fragment fills its block to the end
		assert!(off == BLOCK_SIZE, "non-final fragment does not end at the block boundary");
		off = 0;
		frag_index += 1;
	}
	assert!(consumed == LEN);
	assert!(pos == out.len(), "trailing bytes after the record");
	assert!(w.block_offset == off, "writer's block_offset disagrees with the bytes written");
	kani::cover!(pos >= HEADER_SIZE, "record written");
	core::mem::forget(w);
}

/// reference framing of ONE record of `len` bytes starting at block offset `off`, checked against
/// `out[pos..]`; returns (bytes consumed from out, block offset afterwards)
fn check_one_record(out: &[u8], mut pos: usize, mut off: usize, payload: &[u8]) -> (usize, usize) {
	let len = payload.len();
	let left = BLOCK_SIZE - off;
	if left < HEADER_SIZE {
		assert!(out.len() >= pos + left, "padding missing");
		let mut i = 0;
		while i < left {
			assert!(out[pos + i] == 0, "padding byte not zero");
			i += 1;
		}
		pos += left;
		off = 0;
	}
	let mut consumed = 0usize;
	let mut frag_index = 0usize;
	loop {
		let avail = BLOCK_SIZE - off - HEADER_SIZE;
		let want_len = if len - consumed < avail { len - consumed } else { avail };
		let is_end = consumed + want_len == len;
		let want_ty = if frag_index == 0 && is_end {
			RecordType::Full
		} else if frag_index == 0 {
			RecordType::First
		} else if is_end {
			RecordType::Last
		} else {
			RecordType::Middle
		};
		assert!(out.len() >= pos + HEADER_SIZE + want_len, "frame shorter than the format requires");
		let crc = be32(&out[pos..pos + 4]);
		let flen = u16::from_be_bytes([out[pos + 4], out[pos + 5]]) as usize;
		assert!(flen == want_len, "fragment length field differs from the format's rule");
		assert!(out[pos + 6] == want_ty as u8, "fragment type differs from the format's rule");
		let mut i = 0;
		while i < want_len {
			assert!(out[pos + HEADER_SIZE + i] == payload[consumed + i], "payload bytes altered");
			i += 1;
		}
		assert!(crc == calculate_crc32(&[want_ty as u8], &payload[consumed..consumed + want_len]), "checksum differs from the reader's");
		consumed += want_len;
		pos += HEADER_SIZE + want_len;
		off += HEADER_SIZE + want_len;
		if is_end {
			break;
		}
		assert!(off == BLOCK_SIZE, "non-final fragment does not end at the block boundary");
		off = 0;
		frag_index += 1;
	}
	(pos, off)
}

/// C12-O1b: TWO records in one session: the framing of the second depends on the block offset the writer
/// kept after the first (any drift of that bookkeeping puts the second record out of phase with the grid).
fn two_records_at_block_boundary<const A: usize, const B: usize>(left: usize) {
	let pa: [u8; A] = kani::any();
	let pb: [u8; B] = kani::any();
	let mut w = mk_writer(BLOCK_SIZE - left);
	let r1 = w.add_record(&pa);
	let ok1 = r1.is_ok();
	core::mem::forget(r1);
	let r2 = w.add_record(&pb);
	let ok2 = r2.is_ok();
	core::mem::forget(r2);
	assert!(ok1 && ok2, "add_record failed");
	let out: &[u8] = w.dest.writer.buffer();
	#[cfg(verif_replay)]
	println!("REPLAY wal writer two records left={} A={} B={} -> {:?} block_offset={}", left, A, B, out, w.block_offset);
	let (pos1, off1) = check_one_record(out, 0, BLOCK_SIZE - left, &pa);
	let (pos2, off2) = check_one_record(out, pos1, off1, &pb);
	assert!(pos2 == out.len(), "trailing bytes after the second record");
	assert!(w.block_offset == off2, "writer's block_offset disagrees with the bytes written");
	kani::cover!(pos2 > pos1, "second record written");
	core::mem::forget(w);
}

macro_rules! wal_case2 {
	($name:ident, $a:expr, $b:expr, $left:expr) => {
		#[kani::proof]
		#[kani::unwind(14)]
		#[kani::stub(crc32fast::Hasher::internal_new_specialized, stub_crc_none)]
		fn $name() {
			two_records_at_block_boundary::<$a, $b>($left);
		}
	};
}

// first record ends 3 bytes before the block end -> second starts with padding; first record ends
// exactly at the block end; first fragmented, second lands behind its Last fragment
wal_case2!(c12_writer_two_records_a3_b2_left13, 3, 2, 13);
wal_case2!(c12_writer_two_records_a3_b2_left10, 3, 2, 10);
wal_case2!(c12_writer_two_records_a5_b1_left9, 5, 1, 9);

macro_rules! wal_case {
	($name:ident, $len:expr, $left:expr, $unwind:expr) => {
		#[kani::proof]
		#[kani::unwind($unwind)]
		#[kani::stub(crc32fast::Hasher::internal_new_specialized, stub_crc_none)]
		fn $name() {
			frames_at_block_boundary::<$len>($left);
		}
	};
}

// left = bytes remaining in the block when the record starts; LEN = payload bytes
wal_case!(c12_writer_frames_len5_left0, 5, 0, 14);
wal_case!(c12_writer_frames_len5_left3, 5, 3, 14);
wal_case!(c12_writer_frames_len5_left6, 5, 6, 14);
wal_case!(c12_writer_frames_len5_left7, 5, 7, 14);
wal_case!(c12_writer_frames_len5_left9, 5, 9, 14);
wal_case!(c12_writer_frames_len5_left12, 5, 12, 14);
wal_case!(c12_writer_frames_len5_left13, 5, 13, 14);
wal_case!(c12_writer_frames_len0_left7, 0, 7, 14);
wal_case!(c12_writer_frames_len0_left6, 0, 6, 14);
wal_case!(c12_writer_frames_len1_left8, 1, 8, 14);
wal_case!(c12_writer_frames_len1_left7, 1, 7, 14);
wal_case!(c12_writer_frames_len12_left10, 12, 10, 20);
wal_case!(c12_writer_frames_len12_left1, 12, 1, 20);

/// C12-O2: reopening a segment: the writer's block_offset is re-derived from the file size by the
/// real code of Wal::create_writer (slice wal_reopen: its existing-file branch with the std::fs calls
/// cut away).  For EVERY segment size the writer's idea of its position inside the 32 KiB block grid
/// agrees with the file position, and after maybe_switch_to_new_block the next header lies wholly
/// inside one block.
#[kani::proof]
#[kani::unwind(9)]
fn c12_reopen_offset_arithmetic() {
	let size: u64 = kani::any();
	kani::assume(size >= 1 && size <= (1 << 32));
	let file = unsafe { std::fs::File::from_raw_fd(1000) };
	let mut w = crate::wal::manager::verif_slice_wal_reopen::verif_reopen_writer(size, file, CompressionType::None);
	#[cfg(verif_replay)]
	println!("REPLAY wal reopen size={} -> block_offset={}", size, w.block_offset);
	// records appended from here are framed relative to w.block_offset: it must be the file position
	// modulo the block size, otherwise everything written in this session is out of phase with the grid
	assert!(w.block_offset == (size % BLOCK_SIZE as u64) as usize, "writer's block_offset disagrees with the position in the file after reopen");
	let off = w.block_offset;
	let r = w.maybe_switch_to_new_block();
	let ok = r.is_ok();
	core::mem::forget(r);
	assert!(ok);
	assert!(w.block_offset + HEADER_SIZE <= BLOCK_SIZE, "next header would straddle a block boundary");
	let padded = w.dest.writer.buffer().len();
	assert!(padded < HEADER_SIZE, "padding of a header's size or more");
	assert!((size as usize + padded) % BLOCK_SIZE == w.block_offset, "padding does not land on the block boundary");
	let _ = off;
	kani::cover!(padded == 6, "six bytes of padding");
	kani::cover!(padded == 0 && w.block_offset > 0, "no padding needed mid-block");
	core::mem::forget(w);
}

/// C12-O3: RecordType::from_u8 is total, the inverse of `as u8`, and validate_record_type accepts
/// exactly Full@0, First@0, Middle@>0, Last@>0.
#[kani::proof]
#[kani::stub(std::fmt::format, crate::verif_models::no_format)]
fn c12_record_type_helpers() {
	let b: u8 = kani::any();
	let r = RecordType::from_u8(b);
	match &r {
		Ok(t) => {
			assert!(*t as u8 == b, "from_u8 not the inverse of as u8");
			let i: usize = kani::any();
			let v = validate_record_type(*t, i);
			let want = match t {
				RecordType::Full | RecordType::First => i == 0,
				RecordType::Middle | RecordType::Last => i > 0,
				_ => v.is_ok(),
			};
			assert!(v.is_ok() == want, "validate_record_type accepts/rejects the wrong position");
			core::mem::forget(v);
		}
		Err(_) => assert!(!(b <= 4 || b == 9), "valid record type rejected"),
	}
	kani::cover!(r.is_ok(), "valid type");
	kani::cover!(r.is_err(), "invalid type");
	core::mem::forget(r);
}

/// C12-O5: a fresh LZ4 segment starts with a SetCompressionType record: after writing it the writer's
/// block_offset equals the number of bytes in the file (8), so every later record of the session is
/// framed in phase with the block grid; the record itself has the reader-checked CRC, length 1 and type 9.
#[kani::proof]
#[kani::unwind(14)]
#[kani::stub(crc32fast::Hasher::internal_new_specialized, stub_crc_none)]
fn c12_compression_type_record_is_counted() {
	let file = unsafe { std::fs::File::from_raw_fd(1000) };
	let dest = BufferedFileWriter::new(file, BLOCK_SIZE);
	let mut w = Writer::new(dest, true, CompressionType::Lz4, 0);
	let r = w.add_compression_type_record();
	let ok = r.is_ok();
	core::mem::forget(r);
	assert!(ok, "add_compression_type_record failed");
	let out: &[u8] = w.dest.writer.buffer();
	assert!(out.len() == HEADER_SIZE + 1, "compression-type record has an unexpected size");
	assert!(out[6] == RecordType::SetCompressionType as u8 && out[4] == 0 && out[5] == 1 && out[7] == CompressionType::Lz4 as u8, "compression-type record malformed");
	assert!(be32(&out[0..4]) == calculate_crc32(&[out[6]], &out[7..8]), "compression-type record checksum differs from the reader's");
	assert!(w.block_offset == out.len(), "writer's block_offset does not count the compression-type record (later records are framed out of phase)");
	kani::cover!(w.block_offset == 8, "eight bytes written");
	core::mem::forget(w);
}
