// C05 (+ the pipeline part of C15): the commit queue and CommitPipeline::publish().
//
// Under Kani: child of slice `commit_file` (whole src/commit.rs compiled against a sequential mutex,
// a completion-recording oneshot channel, a permit counter and the oracle slice).  The pipeline and
// the queue are built by struct literal (no 8-slot from_fn loop).  The harness explores every ORDER
// in which memtable applies finish relative to WAL order; publish()/dequeue_applied run atomically
// (instruction-level interleavings are outside the claim).
// Under --cfg verif_replay: child of the real src/commit.rs (tokio oneshot, parking_lot, real oracle).
use super::*;

struct NoEnv;
impl CommitEnv for NoEnv {
	fn write(&self, _b: &Batch, _s: u64, _sync: bool) -> Result<Batch> {
		unreachable!()
	}
	fn apply(&self, _b: &Batch) -> Result<()> {
		unreachable!()
	}
	fn check_background_error(&self) -> Result<()> {
		Ok(())
	}
	fn oldest_active_start_seq(&self) -> u64 {
		0
	}
}

#[cfg(not(verif_replay))]
fn mk_pipeline(visible0: u64, head0: u32) -> CommitPipeline {
	let stall: Arc<core::mem::MaybeUninit<WriteStallController>> = Arc::new_uninit();
	let stall: Arc<WriteStallController> = unsafe { stall.assume_init() };
	let oracle: Arc<core::mem::MaybeUninit<CommitOracle>> = Arc::new_uninit();
	let oracle: Arc<CommitOracle> = unsafe { oracle.assume_init() };
	let p = core::ptr::null_mut::<CommitBatch>;
	let q = CommitQueue {
		head_tail: AtomicU64::new(((head0 as u64) << DEQUEUE_BITS) | head0 as u64),
		slots: [
			AtomicPtr::new(p()),
			AtomicPtr::new(p()),
			AtomicPtr::new(p()),
			AtomicPtr::new(p()),
			AtomicPtr::new(p()),
			AtomicPtr::new(p()),
			AtomicPtr::new(p()),
			AtomicPtr::new(p()),
		],
	};
	CommitPipeline {
		env: Arc::new(NoEnv),
		log_seq_num: AtomicU64::new(visible0 + 1),
		visible_seq_num: Arc::new(AtomicU64::new(visible0)),
		oracle,
		write_mutex: Mutex::new(()),
		pending: q,
		commit_sem: Arc::new(Semaphore::new(MAX_CONCURRENT_COMMITS - 1)),
		shutdown: AtomicBool::new(false),
		write_stall: stall,
	}
}

#[cfg(verif_replay)]
struct NoStall;
#[cfg(verif_replay)]
impl crate::stall::WriteStallCountProvider for NoStall {
	fn get_stall_counts(&self) -> crate::stall::StallCounts {
		crate::stall::StallCounts { immutable_memtables: 0, l0_files: 0 }
	}
}

#[cfg(verif_replay)]
fn mk_pipeline(visible0: u64, head0: u32) -> Arc<CommitPipeline> {
	let stall = Arc::new(WriteStallController::new(
		Arc::new(NoStall),
		crate::stall::StallThresholds { memtable_limit: 100, l0_file_limit: 100 },
	));
	let p = CommitPipeline::new(Arc::new(NoEnv), Arc::new(AtomicU64::new(visible0)), stall);
	p.set_seq_num(visible0);
	p.pending.head_tail.store(((head0 as u64) << DEQUEUE_BITS) | head0 as u64, Ordering::SeqCst);
	p
}

// completion observation: model channel records sends; the real tokio receiver is try_recv()'d
#[cfg(not(verif_replay))]
struct Obs {
	rx: oneshot::Receiver<Result<()>>,
}
#[cfg(not(verif_replay))]
impl Obs {
	fn new(rx: oneshot::Receiver<Result<()>>, visible: &Arc<AtomicU64>, probe: bool) -> Self {
		if probe {
			unsafe {
				oneshot::HORIZON_PROBE = Arc::as_ptr(visible);
			}
		}
		Obs { rx }
	}
	/// (completed, ok, order)
	fn get(&mut self) -> (u32, bool, u32) {
		(self.rx.slot.sends.get(), self.rx.slot.ok.get(), self.rx.slot.order.get())
	}
	/// the visibility horizon at the moment the completion was sent (u64::MAX: not sent)
	fn horizon_at_completion(&self) -> u64 {
		self.rx.slot.horizon_at_send.get()
	}
}
// Native observation of a real tokio oneshot: the receiver is polled once with a waker that records the
// visibility horizon (and a global order stamp) at the instant the sender wakes it, i.e. exactly when
// `complete()` sends - what the committer resumed by that completion would see.
#[cfg(verif_replay)]
struct HorizonWaker {
	visible: Arc<AtomicU64>,
	seen: AtomicU64,
	order: AtomicU64,
}
#[cfg(verif_replay)]
static REPLAY_CLOCK: AtomicU64 = AtomicU64::new(0);
#[cfg(verif_replay)]
impl std::task::Wake for HorizonWaker {
	fn wake(self: Arc<Self>) {
		if self.seen.load(Ordering::SeqCst) == u64::MAX {
			self.seen.store(self.visible.load(Ordering::Acquire), Ordering::SeqCst);
			self.order.store(REPLAY_CLOCK.fetch_add(1, Ordering::SeqCst) + 1, Ordering::SeqCst);
		}
	}
}
#[cfg(verif_replay)]
struct Obs {
	rx: oneshot::Receiver<Result<()>>,
	w: Arc<HorizonWaker>,
	seen: Option<bool>,
}
#[cfg(verif_replay)]
impl Obs {
	fn new(rx: oneshot::Receiver<Result<()>>, visible: &Arc<AtomicU64>, _probe: bool) -> Self {
		let w = Arc::new(HorizonWaker { visible: Arc::clone(visible), seen: AtomicU64::new(u64::MAX), order: AtomicU64::new(0) });
		let mut o = Obs { rx, w, seen: None };
		o.poll();
		o
	}
	fn poll(&mut self) {
		use std::future::Future;
		if self.seen.is_none() {
			let waker = std::task::Waker::from(Arc::clone(&self.w));
			let mut cx = std::task::Context::from_waker(&waker);
			if let std::task::Poll::Ready(r) = std::pin::Pin::new(&mut self.rx).poll(&mut cx) {
				self.seen = Some(matches!(r, Ok(Ok(()))));
			}
		}
	}
	fn get(&mut self) -> (u32, bool, u32) {
		self.poll();
		match self.seen {
			Some(ok) => (1, ok, self.w.order.load(Ordering::SeqCst) as u32),
			None => (0, false, 0),
		}
	}
	fn horizon_at_completion(&self) -> u64 {
		self.w.seen.load(Ordering::SeqCst)
	}
}

const K: usize = 3;

/// C05-O1: with k batches enqueued in WAL order (symbolic sizes, so symbolic seq ranges; symbolic
/// ring position, wrap-around included) and their applies finishing in EVERY order:
/// after every mark_applied + publish() the visibility horizon is exactly the last seq of the
/// longest applied prefix - never inside a batch, never backwards - and a batch's completion fires
/// exactly once, only when the horizon covers it, in WAL order.  A batch whose WAL write/apply
/// failed (completed with Err before being marked applied) keeps its Err and does not block the queue.
fn publish_exposes_applied_prefix(k: usize, head0: u32, order: [usize; K]) {
	publish_exposes_applied_prefix_opt(k, head0, order, true)
}

/// `full` = horizon observed at completion time as well (k = 2); the k = 3 instances run without the
/// completion-time probe (30 GB otherwise)
fn publish_exposes_applied_prefix_opt(k: usize, head0: u32, order: [usize; K], full: bool) {
	publish_exposes_applied_prefix_mask(k, head0, order, full, 0)
}

/// fails_mask = 0xff: which batches fail is symbolic; otherwise bit q says whether batch q fails (concrete)
fn publish_exposes_applied_prefix_mask(k: usize, head0: u32, order: [usize; K], full: bool, fails_mask: u8) {
	let visible0: u64 = kani::any();
	kani::assume(visible0 <= 1000);
	let pipe = mk_pipeline(visible0, head0);
	let cnt: [u32; K] = kani::any();
	let fails: [bool; K] = if fails_mask == 0xff { kani::any() } else { [fails_mask & 1 != 0, fails_mask & 2 != 0, fails_mask & 4 != 0] };
	let mut start = [0u64; K];
	let mut end = [0u64; K];
	let mut batches: [Option<Arc<CommitBatch>>; K] = [None, None, None];
	let mut obs: [Option<Obs>; K] = [None, None, None];
	let mut next = visible0 + 1;
	let mut i = 0;
	while i < k {
		kani::assume(cnt[i] >= 1 && cnt[i] <= 4);
		let (b, rx) = CommitBatch::new(cnt[i]);
		start[i] = next;
		end[i] = next + cnt[i] as u64 - 1;
		b.set_seq_num(next);
		next += cnt[i] as u64;
		pipe.pending.enqueue(Arc::clone(&b));
		batches[i] = Some(b);
		obs[i] = Some(Obs::new(rx, &pipe.visible_seq_num, full));
		i += 1;
	}
	let mut applied = [false; K];
	let mut last_visible = visible0;
	let mut step = 0;
	while step < k {
		// the apply of batch order[step] finishes now (the completion ORDER is the structural axis:
		// one harness instance per permutation; sizes, horizon and failures stay symbolic)
		let j: usize = order[step];
		let b = batches[j].as_ref().unwrap();
		if fails[j] {
			// failure path of commit(): complete(Err) FIRST, then mark_applied, then publish
			b.complete(Err(Error::PipelineStall));
		}
		b.mark_applied();
		applied[j] = true;
		pipe.publish();
		let vis = pipe.get_visible_seq_num();
		// longest applied prefix
		let mut want = visible0;
		let mut p = 0;
		let mut prefix = 0;
		while p < k {
			if prefix == p && applied[p] {
				want = end[p];
				prefix = p + 1;
			}
			p += 1;
		}
		#[cfg(verif_replay)]
		println!("REPLAY commit step {} apply finished for batch {} (fails={}) ranges={:?}..{:?} applied={:?} -> visible {} (want {})", step, j, fails[j], &start[..k], &end[..k], &applied[..k], vis, want);
		assert!(vis == want, "visible_seq_num is not the end of the longest applied prefix");
		assert!(vis >= last_visible, "visibility horizon moved backwards");
		let mut q = 0;
		while q < k {
			assert!(!(vis >= start[q] && vis < end[q]), "horizon inside a batch: a reader would see part of a transaction");
			let (sends, ok, _ord) = obs[q].as_mut().unwrap().get();
			assert!(sends <= 1, "completion fired twice");
			if q < prefix {
				assert!(sends == 1 || fails[q], "batch covered by the horizon but commit() not released");
				if sends == 1 && !fails[q] {
					assert!(ok, "successful batch completed with an error");
					// commit() is resumed by this completion: a transaction it begins right away must
					// already see the commit
					if full {
						assert!(obs[q].as_ref().unwrap().horizon_at_completion() >= end[q], "commit() released before the visibility horizon covered its batch");
					}
				}
			} else if !fails[q] {
				assert!(sends == 0, "commit() released before its batch is visible");
			}
			if fails[q] && applied[q] {
				assert!(sends == 1 && !ok, "failed batch lost its error (completed Ok)");
			}
			q += 1;
		}
		last_visible = vis;
		step += 1;
	}
	// all applied: everything published
	assert!(pipe.get_visible_seq_num() == end[k - 1]);
	// queue drained: head == tail, every slot free again
	let (h, t) = pipe.pending.unpack(pipe.pending.head_tail.load(Ordering::Acquire));
	assert!(h == t, "queue not drained");
	kani::cover!(cnt[0] == 4 && cnt[1] == 1, "a four-entry batch followed by a one-entry batch");
	kani::cover!(applied[0] && last_visible == end[k - 1], "all published");
	core::mem::forget(batches);
	core::mem::forget(obs);
	core::mem::forget(pipe);
}

#[kani::proof]
#[kani::unwind(4)]
fn c05_publish_applied_prefix_k2_o01_f0() {
	publish_exposes_applied_prefix_mask(2, 0, [0, 1, 9], true, 0);
}

#[kani::proof]
#[kani::unwind(4)]
fn c05_publish_applied_prefix_k2_o01_f1() {
	publish_exposes_applied_prefix_mask(2, 0, [0, 1, 9], true, 1);
}

#[kani::proof]
#[kani::unwind(4)]
fn c05_publish_applied_prefix_k2_o01_f2() {
	publish_exposes_applied_prefix_mask(2, 0, [0, 1, 9], true, 2);
}

#[kani::proof]
#[kani::unwind(4)]
fn c05_publish_applied_prefix_k2_o01_f3() {
	publish_exposes_applied_prefix_mask(2, 0, [0, 1, 9], true, 3);
}

#[kani::proof]
#[kani::unwind(4)]
fn c05_publish_applied_prefix_k2_o10_f0() {
	publish_exposes_applied_prefix_mask(2, 0, [1, 0, 9], true, 0);
}

#[kani::proof]
#[kani::unwind(4)]
fn c05_publish_applied_prefix_k2_o10_f1() {
	publish_exposes_applied_prefix_mask(2, 0, [1, 0, 9], true, 1);
}

#[kani::proof]
#[kani::unwind(4)]
fn c05_publish_applied_prefix_k2_o10_f2() {
	publish_exposes_applied_prefix_mask(2, 0, [1, 0, 9], true, 2);
}

#[kani::proof]
#[kani::unwind(4)]
fn c05_publish_applied_prefix_k2_o10_f3() {
	publish_exposes_applied_prefix_mask(2, 0, [1, 0, 9], true, 3);
}

/// ring position u32::MAX: head/tail wrap around 2^32 and the slot index wraps 7 -> 0
#[kani::proof]
#[kani::unwind(4)]
fn c05_publish_applied_prefix_k2_o10_f1_wrap() {
	publish_exposes_applied_prefix_mask(2, u32::MAX, [1, 0, 9], true, 1);
}

#[kani::proof]
#[kani::unwind(5)]
fn c05_publish_applied_prefix_k3_o012() {
	publish_exposes_applied_prefix_opt(3, 6, [0, 1, 2], false);
}

#[kani::proof]
#[kani::unwind(5)]
fn c05_publish_applied_prefix_k3_o021() {
	publish_exposes_applied_prefix_opt(3, 6, [0, 2, 1], false);
}

#[kani::proof]
#[kani::unwind(5)]
fn c05_publish_applied_prefix_k3_o102() {
	publish_exposes_applied_prefix_opt(3, 6, [1, 0, 2], false);
}

#[kani::proof]
#[kani::unwind(5)]
fn c05_publish_applied_prefix_k3_o120() {
	publish_exposes_applied_prefix_opt(3, 6, [1, 2, 0], false);
}

#[kani::proof]
#[kani::unwind(5)]
fn c05_publish_applied_prefix_k3_o201() {
	publish_exposes_applied_prefix_opt(3, 6, [2, 0, 1], false);
}

#[kani::proof]
#[kani::unwind(5)]
fn c05_publish_applied_prefix_k3_o210() {
	publish_exposes_applied_prefix_opt(3, 6, [2, 1, 0], false);
}

/// k = 3 with one failed batch (concrete position), applies finishing in reverse WAL order
#[kani::proof]
#[kani::unwind(5)]
fn c05_publish_applied_prefix_k3_o210_first_fails() {
	publish_exposes_applied_prefix_mask(3, 6, [2, 1, 0], false, 1);
}

#[kani::proof]
#[kani::unwind(5)]
fn c05_publish_applied_prefix_k3_o201_middle_fails() {
	publish_exposes_applied_prefix_mask(3, 6, [2, 0, 1], false, 2);
}

/// C05-O2: pack/unpack are inverse and the ring is FIFO: a batch is dequeued only when applied and
/// only if it is the oldest; an unapplied head blocks everything behind it.
#[kani::proof]
#[kani::unwind(5)]
fn c05_queue_is_fifo() {
	let head0: u32 = 7;
	let pipe = mk_pipeline(5, head0);
	let q = &pipe.pending;
	let (h, t): (u32, u32) = (kani::any(), kani::any());
	assert!(q.unpack(q.pack(h, t)) == (h, t), "pack/unpack not inverse");
	let (b0, _r0) = CommitBatch::new(1);
	let (b1, _r1) = CommitBatch::new(1);
	b0.set_seq_num(6);
	b1.set_seq_num(7);
	q.enqueue(Arc::clone(&b0));
	q.enqueue(Arc::clone(&b1));
	let first_applied: bool = kani::any();
	if first_applied {
		b0.mark_applied();
	} else {
		b1.mark_applied();
	}
	let d = q.dequeue_applied();
	match &d {
		Some(b) => {
			assert!(first_applied, "dequeued although the oldest batch is not applied");
			assert!(b.get_seq_num() == 6, "dequeue skipped the oldest batch");
		}
		None => assert!(!first_applied, "oldest batch applied but not dequeued"),
	}
	kani::cover!(d.is_some(), "oldest applied and dequeued");
	kani::cover!(d.is_none(), "head of line blocks");
	core::mem::forget(d);
	core::mem::forget((b0, b1, _r0, _r1));
	core::mem::forget(pipe);
}
