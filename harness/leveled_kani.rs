// C06-O4: input selection of a compaction (src/compaction/leveled.rs): the combined key range of the
// source tables - which decides which tables of the next level take part - covers every source table.
// A next-level table left out because the range is too narrow keeps older versions next to the
// compaction output; at the last level the tombstone is dropped and the old value reappears.
use super::*;
use crate::sstable::table::verif_kani::mk_table;

fn combined_range_covers(nt: usize) {
	let b: [u8; 6] = kani::any();
	let mut tables: Vec<Arc<Table>> = Vec::with_capacity(3);
	let mut i = 0;
	while i < nt {
		kani::assume(b[2 * i] <= b[2 * i + 1]);
		// L0 tables: arbitrary overlaps, arbitrary order
		tables.push(mk_table(i as u64 + 1, Some(&b[2 * i..2 * i + 1]), Some(&b[2 * i + 1..2 * i + 2]), (Some(1), Some(1))));
		i += 1;
	}
	let r = Strategy::combined_key_range(tables.iter());
	#[cfg(verif_replay)]
	println!("REPLAY combined_key_range tables={:?} nt={} -> {:?}", &b[..2 * nt], nt, r.as_ref().map(|(s, e)| (format!("{:?}", s), format!("{:?}", e))));
	match &r {
		Some((Bound::Included(s), Bound::Included(e))) => {
			let mut j = 0;
			while j < nt {
				assert!(s.user_key.len() == 1 && e.user_key.len() == 1);
				assert!(s.user_key[0] <= b[2 * j], "combined key range starts above a source table's smallest key");
				assert!(e.user_key[0] >= b[2 * j + 1], "combined key range ends below a source table's largest key");
				j += 1;
			}
			kani::cover!(nt >= 2 && b[2] < b[0] && b[3] > b[1], "second table sticks out of the first on both sides");
			kani::cover!(nt >= 2 && b[2] > b[1], "disjoint tables");
		}
		_ => assert!(false, "no combined range for tables that have key metadata"),
	}
	core::mem::forget(r);
	core::mem::forget(tables);
}

#[kani::proof]
#[kani::unwind(5)]
fn c06_combined_key_range_covers_sources_t2() {
	combined_range_covers(2);
}

#[kani::proof]
#[kani::unwind(5)]
fn c06_combined_key_range_covers_sources_t3() {
	combined_range_covers(3);
}
