// C04 / C15: the commit oracle (conflict detection, GC of the conflict window, rollback).
//
// Under Kani: child of slice `oracle_file` (whole src/oracle.rs with HashMap -> verif_models::SmallMap,
// parking_lot::Mutex -> verif_models::Mutex, xxh3_64 -> verif_models::fp_injective).
// Under --cfg verif_replay: child of the real src/oracle.rs (real HashMap, real mutex, real xxh3).
use super::*;

const KA: &[u8] = b"a";
const KB: &[u8] = b"b";
const KC: &[u8] = b"c";
const SEQ_MAX: u64 = (1 << 56) - 1;

#[derive(Clone, Copy)]
struct KeySel {
	sel: [bool; 3],
	pos: usize,
}
impl Iterator for KeySel {
	type Item = &'static [u8];
	fn next(&mut self) -> Option<&'static [u8]> {
		while self.pos < 3 {
			let p = self.pos;
			self.pos += 1;
			if self.sel[p] {
				return Some(match p {
					0 => KA,
					1 => KB,
					_ => KC,
				});
			}
		}
		None
	}
}
fn keys(sel: [bool; 3]) -> KeySel {
	KeySel { sel, pos: 0 }
}

#[derive(Clone, Copy)]
struct Pre {
	present: [bool; 3],
	stamp: [u64; 3],
	kept_since: u64,
	commits_since_gc: u32,
}

impl Pre {
	/// Arbitrary oracle state satisfying the representation invariant
	///   Inv: every recorded stamp >= kept_since   (GC retains exactly those)
	fn any() -> Self {
		let p = Pre {
			present: kani::any(),
			stamp: kani::any(),
			kept_since: kani::any(),
			commits_since_gc: kani::any(),
		};
		kani::assume(p.kept_since <= SEQ_MAX);
		let mut i = 0;
		while i < 3 {
			kani::assume(p.stamp[i] <= SEQ_MAX);
			if p.present[i] {
				kani::assume(p.stamp[i] >= p.kept_since);
			}
			i += 1;
		}
		p
	}
	fn build(&self) -> CommitOracle {
		let mut m = HashMap::new();
		let ks = [KA, KB, KC];
		let mut i = 0;
		while i < 3 {
			if self.present[i] {
				m.insert(fp(ks[i]), self.stamp[i]);
			}
			i += 1;
		}
		CommitOracle {
			inner: Mutex::new(OracleInner {
				recent_writes: m,
				kept_since: self.kept_since,
				commits_since_gc: self.commits_since_gc,
				#[cfg(debug_assertions)]
				last_gc_oldest_active: 0,
			}),
		}
	}
}

struct Post {
	present: [bool; 3],
	stamp: [u64; 3],
	kept_since: u64,
	commits_since_gc: u32,
}
fn observe(o: &CommitOracle) -> Post {
	let g = o.inner.lock();
	let ks = [KA, KB, KC];
	let mut p = Post { present: [false; 3], stamp: [0; 3], kept_since: g.kept_since, commits_since_gc: g.commits_since_gc };
	let mut i = 0;
	while i < 3 {
		if let Some(&v) = g.recent_writes.get(&fp(ks[i])) {
			p.present[i] = true;
			p.stamp[i] = v;
		}
		i += 1;
	}
	p
}

#[derive(PartialEq, Eq, Clone, Copy, Debug)]
enum Verdict {
	Ok,
	Retry,
	Conflict,
	Other,
}
fn verdict(r: Result<()>) -> Verdict {
	let v = match &r {
		Ok(()) => Verdict::Ok,
		Err(Error::TransactionRetry) => Verdict::Retry,
		Err(Error::TransactionWriteConflict) => Verdict::Conflict,
		Err(_) => Verdict::Other,
	};
	core::mem::forget(r);
	v
}

/// C04-O1: from any Inv state, check(S, start) answers exactly:
///   Retry  <=> start < kept_since  (the conflict window was pruned: documented retry case)
///   else Conflict <=> some key of S was stamped by a commit after `start`
///   else Ok   (a transaction none of whose keys was written since it began commits)
#[kani::proof]
#[kani::unwind(5)]
fn c04_check_sound_and_complete() {
	let pre = Pre::any();
	let o = pre.build();
	let sel: [bool; 3] = kani::any();
	let start: u64 = kani::any();
	kani::assume(start <= SEQ_MAX);
	let got = verdict(o.check(keys(sel), start));
	let mut conflict = false;
	let mut i = 0;
	while i < 3 {
		if sel[i] && pre.present[i] && pre.stamp[i] > start {
			conflict = true;
		}
		i += 1;
	}
	let want = if start < pre.kept_since {
		Verdict::Retry
	} else if conflict {
		Verdict::Conflict
	} else {
		Verdict::Ok
	};
	#[cfg(verif_replay)]
	println!("REPLAY oracle check present={:?} stamp={:?} kept_since={} sel={:?} start={} -> {:?} (want {:?})", pre.present, pre.stamp, pre.kept_since, sel, start, got, want);
	assert!(got == want, "oracle.check verdict differs from first-committer-wins");
	// check must not modify the oracle
	let post = observe(&o);
	let mut j = 0;
	while j < 3 {
		assert!(post.present[j] == pre.present[j] && (!pre.present[j] || post.stamp[j] == pre.stamp[j]), "check modified the conflict map");
		j += 1;
	}
	assert!(post.kept_since == pre.kept_since);
	kani::cover!(want == Verdict::Retry, "retry: window pruned");
	kani::cover!(want == Verdict::Conflict, "conflict detected");
	kani::cover!(want == Verdict::Ok && sel[0] && pre.present[0], "ok although the key has an older stamp");
	kani::cover!(want == Verdict::Ok && sel[0] && pre.present[0] && pre.stamp[0] == start, "stamp == start is not a conflict");
	core::mem::forget(o);
}

/// C04-O2: publish is an inductive step: from any Inv state, with the watermark the pipeline passes
/// (oldest_active <= the committer's start < seq), Inv holds afterwards, the published keys carry
/// the batch's highest seq, and no entry a live transaction could still need is dropped.
#[kani::proof]
#[kani::unwind(5)]
fn c04_publish_step_preserves_inv() {
	let pre = Pre::any();
	let o = pre.build();
	let sel: [bool; 3] = kani::any();
	let seq: u64 = kani::any();
	let count: u64 = kani::any();
	let oldest_active: u64 = kani::any();
	kani::assume(count >= 1 && count <= (1 << 32));
	kani::assume(seq >= 1 && seq <= SEQ_MAX - count);
	// CommitPipeline::commit: oldest_active = env.oldest_active_start_seq().min(start_seq), start_seq <= visible < seq
	kani::assume(oldest_active < seq);
	// sequence numbers are allocated in increasing order: nothing recorded is above the one being allocated
	let mut i = 0;
	while i < 3 {
		if pre.present[i] {
			kani::assume(pre.stamp[i] < seq);
		}
		i += 1;
	}
	kani::assume(pre.kept_since < seq);
	o.publish(keys(sel), seq, count, oldest_active);
	let post = observe(&o);
	let stamp = seq + count - 1;
	#[cfg(verif_replay)]
	println!("REPLAY oracle publish pre present={:?} stamp={:?} kept={} gc_ctr={} sel={:?} seq={} count={} oldest={} -> present={:?} stamp={:?} kept={}", pre.present, pre.stamp, pre.kept_since, pre.commits_since_gc, sel, seq, count, oldest_active, post.present, post.stamp, post.kept_since);
	// kept_since moves only forward and never past the live watermark
	assert!(post.kept_since >= pre.kept_since, "kept_since moved backwards");
	assert!(post.kept_since == pre.kept_since || post.kept_since == oldest_active, "kept_since jumped to something other than the watermark");
	assert!(post.kept_since <= if oldest_active > pre.kept_since { oldest_active } else { pre.kept_since }, "kept_since advanced past the oldest live transaction");
	let gc_ran = post.kept_since != pre.kept_since;
	let mut dropped = false;
	let mut j = 0;
	while j < 3 {
		if sel[j] {
			// (any stamp inside the batch's own range is sound: the horizon is never inside a batch)
			assert!(post.present[j] && post.stamp[j] >= seq && post.stamp[j] <= stamp, "published key is not stamped with a sequence number of its batch");
		} else if pre.present[j] {
			if pre.stamp[j] >= post.kept_since {
				assert!(post.present[j] && post.stamp[j] == pre.stamp[j], "an entry inside the conflict window was dropped or changed");
			} else if !post.present[j] {
				dropped = true;
			}
		} else {
			assert!(!post.present[j], "entry appeared for a key that was not published");
		}
		// Inv
		if post.present[j] {
			assert!(post.stamp[j] >= post.kept_since, "Inv broken: stamp below kept_since");
		}
		j += 1;
	}
	if !gc_ran {
		let mut k = 0;
		while k < 3 {
			if !sel[k] {
				assert!(post.present[k] == pre.present[k], "entry dropped although GC did not run");
			}
			k += 1;
		}
	}
	kani::cover!(gc_ran, "GC body ran");
	kani::cover!(gc_ran && dropped, "GC dropped an entry below the watermark");
	kani::cover!(!gc_ran && pre.commits_since_gc >= GC_INTERVAL, "throttle passed but watermark gate closed");
	kani::cover!(!gc_ran && oldest_active > pre.kept_since, "watermark advanced but throttle closed");
	core::mem::forget(o);
}

/// C04-O4 / C15-O2: rollback(keys, my_seq) is seq-guarded: it never touches an entry whose stamp
/// differs from my_seq (a concurrent overwriter keeps its stamp), nor keys outside `keys`, nor kept_since.
#[kani::proof]
#[kani::unwind(5)]
fn c04_rollback_is_seq_guarded() {
	let pre = Pre::any();
	let o = pre.build();
	let sel: [bool; 3] = kani::any();
	let my_seq: u64 = kani::any();
	kani::assume(my_seq <= SEQ_MAX);
	o.rollback(keys(sel), my_seq);
	let post = observe(&o);
	#[cfg(verif_replay)]
	println!("REPLAY oracle rollback pre present={:?} stamp={:?} sel={:?} my_seq={} -> present={:?} stamp={:?}", pre.present, pre.stamp, sel, my_seq, post.present, post.stamp);
	let mut removed = false;
	let mut j = 0;
	while j < 3 {
		if pre.present[j] && (!sel[j] || pre.stamp[j] != my_seq) {
			assert!(post.present[j] && post.stamp[j] == pre.stamp[j], "rollback touched an entry it does not own");
		}
		if !pre.present[j] {
			assert!(!post.present[j], "rollback created an entry");
		}
		if pre.present[j] && !post.present[j] {
			removed = true;
		}
		// ... and it removes EVERY entry it owns, whatever else the batch contains (a stamp left behind
		// by a failed commit makes later writers of that key conflict with a commit that never happened)
		if sel[j] && pre.present[j] && pre.stamp[j] == my_seq {
			assert!(!post.present[j], "rollback left a stamp of the failed commit behind");
		}
		if post.present[j] {
			assert!(post.stamp[j] >= post.kept_since);
		}
		j += 1;
	}
	assert!(post.kept_since == pre.kept_since, "rollback moved kept_since");
	kani::cover!(removed, "rollback removed an owned entry");
	kani::cover!(sel[0] && pre.present[0] && pre.stamp[0] != my_seq, "overwritten entry left alone");
	core::mem::forget(o);
}

/// C04-O6: after reset_for_restore(max_seq) the map is empty and exactly the transactions that
/// started before the restore point are told to retry (the documented retry case).
#[kani::proof]
#[kani::unwind(5)]
fn c04_reset_for_restore_retry_window() {
	let pre = Pre::any();
	let o = pre.build();
	let max_seq: u64 = kani::any();
	kani::assume(max_seq <= SEQ_MAX);
	o.reset_for_restore(max_seq);
	let sel: [bool; 3] = kani::any();
	let start: u64 = kani::any();
	let got = verdict(o.check(keys(sel), start));
	assert!(got == if start < max_seq { Verdict::Retry } else { Verdict::Ok }, "post-restore check verdict");
	let post = observe(&o);
	assert!(!post.present[0] && !post.present[1] && !post.present[2] && post.kept_since == max_seq && post.commits_since_gc == 0);
	kani::cover!(got == Verdict::Retry, "retry after restore");
	kani::cover!(got == Verdict::Ok && pre.present[0] && sel[0], "ghost entry cleared");
	core::mem::forget(o);
}

/// Shared scenario of C04-O3 / C15-O1: T0 commits k at s0; T1 (started after T0's commit) commits k
/// at s1 and its WAL write or memtable apply fails -> rollback(k, s1).  T2 started BEFORE s0 and
/// writes k: it overlapped T0, so it must not be allowed to commit.
fn rollback_then_late_check(restrict_to_f3: bool, exclude_f3: bool) {
	let o = CommitOracle::new();
	let s0: u64 = kani::any();
	let c0: u64 = kani::any();
	let s1: u64 = kani::any();
	let c1: u64 = kani::any();
	let start2: u64 = kani::any();
	let sel0: [bool; 3] = kani::any();
	let sel1: [bool; 3] = kani::any();
	let sel2: [bool; 3] = kani::any();
	kani::assume(c0 >= 1 && c0 <= 4 && c1 >= 1 && c1 <= 4);
	kani::assume(s0 >= 1 && s0 <= 1000 && s1 == s0 + c0);
	kani::assume(start2 < s0);
	let stamp0 = s0 + c0 - 1;
	let stamp1 = s1 + c1 - 1;
	// a key written by T0 and T1 and T2
	let mut shared012 = false;
	let mut shared02 = false;
	let mut i = 0;
	while i < 3 {
		if sel0[i] && sel2[i] {
			shared02 = true;
			if sel1[i] {
				shared012 = true;
			}
		}
		i += 1;
	}
	kani::assume(shared02);
	if restrict_to_f3 {
		kani::assume(shared012);
	}
	if exclude_f3 {
		// F3 signature: a key of T2 was written by T0 and then by the rolled-back T1
		let mut f3 = false;
		let mut j = 0;
		while j < 3 {
			if sel0[j] && sel1[j] && sel2[j] {
				f3 = true;
			}
			j += 1;
		}
		kani::assume(!f3);
	}
	o.publish(keys(sel0), s0, c0, 0);
	o.publish(keys(sel1), s1, c1, 0);
	o.rollback(keys(sel1), stamp1);
	let got = verdict(o.check(keys(sel2), start2));
	#[cfg(verif_replay)]
	println!("REPLAY oracle T0 publish {:?}@{}..{} ; T1 publish {:?}@{}..{} then rollback ; T2 start={} check {:?} -> {:?}", sel0, s0, stamp0, sel1, s1, stamp1, start2, sel2, got);
	let _ = stamp0;
	assert!(got == Verdict::Conflict, "a transaction that overlapped a committed writer of its key was allowed to commit after an unrelated rollback");
	kani::cover!(sel1[0] && !sel0[0], "rolled-back writer wrote a key T0 did not");
	core::mem::forget(o);
}

/// C04-O3 / C15-O1 with the listed finding F3 excluded (cfg verif_kf_f3) - must hold.
#[kani::proof]
#[kani::unwind(5)]
fn c04_rollback_does_not_forget_older_writers() {
	rollback_then_late_check(false, crate::verif_cfg::KF_F3);
}

/// Witness of known finding F3 (run only while F3 is listed in KNOWN_FINDINGS.jsonl).
#[kani::proof]
#[kani::unwind(5)]
fn c04_witness_f3_rollback_erases_older_stamp() {
	rollback_then_late_check(true, false);
}
