// C07: load-time validation of the manifest (src/levels/mod.rs).
use super::*;
use crate::sstable::table::verif_kani::mk_table;

/// C07-O1: every table layout a level >= 1 can reach is accepted at load time.  Tables of such a
/// level are ordered by KEY; each carries a sequence range smallest <= largest and the ranges of
/// different tables are unrelated (successive compactions interleave them).
#[kani::proof]
#[kani::unwind(5)]
#[kani::stub(std::fmt::format, crate::verif_models::no_format)]
fn c07_seq_validation_accepts_reachable_layouts() {
	let nt: usize = kani::any();
	kani::assume(nt >= 1 && nt <= 3);
	let lo: [u64; 3] = kani::any();
	let hi: [u64; 3] = kani::any();
	let level: u8 = kani::any();
	kani::assume(level >= 1);
	let keys: [[u8; 1]; 6] = [[1], [2], [3], [4], [5], [6]];
	let mut tables: Vec<Arc<Table>> = Vec::with_capacity(3);
	let mut i = 0;
	while i < nt {
		kani::assume(lo[i] >= 1 && lo[i] <= hi[i] && hi[i] < (1 << 56));
		tables.push(mk_table(i as u64 + 1, Some(&keys[2 * i]), Some(&keys[2 * i + 1]), (Some(lo[i]), Some(hi[i]))));
		i += 1;
	}
	let r = LevelManifest::validate_table_sequence_numbers(level, &tables);
	#[cfg(verif_replay)]
	println!("REPLAY validate level={} seq ranges lo={:?} hi={:?} nt={} -> ok={}", level, lo, hi, nt, r.is_ok());
	let ok = r.is_ok();
	core::mem::forget(r);
	assert!(ok, "a level layout the engine itself produces is rejected at load time (store cannot reopen)");
	kani::cover!(nt == 3 && hi[1] < lo[0] && hi[2] < lo[1], "sequence ranges decrease along the key order");
	kani::cover!(nt == 2 && lo[1] <= hi[0] && lo[0] <= hi[1], "sequence ranges of two tables overlap");
	core::mem::forget(tables);
}

/// C07-O1b (witness only): the per-table sanity part of the validator is still there - impossible
/// metadata (smallest > largest, one of the two missing) is rejected.  These are COVER witnesses, not
/// assertions: C07 does not demand the rejection, it only keeps O1 from being satisfied by a validator
/// that was emptied (an unsatisfied cover makes the check inconclusive, exit 2 - not a violation).
#[kani::proof]
#[kani::unwind(5)]
#[kani::stub(std::fmt::format, crate::verif_models::no_format)]
fn c07_seq_validation_rejects_impossible_tables() {
	let lo: u64 = kani::any();
	let hi: u64 = kani::any();
	let which: u8 = kani::any();
	kani::assume(which <= 2);
	let seqs = match which {
		0 => {
			kani::assume(lo > hi);
			(Some(lo), Some(hi))
		}
		1 => (None, Some(hi)),
		_ => (Some(lo), None),
	};
	let mut tables: Vec<Arc<Table>> = Vec::with_capacity(1);
	tables.push(mk_table(1, Some(&[1u8]), Some(&[2u8]), seqs));
	let r = LevelManifest::validate_table_sequence_numbers(1, &tables);
	let ok = r.is_ok();
	core::mem::forget(r);
	kani::cover!(!ok && which == 0, "smallest > largest rejected");
	kani::cover!(!ok && which == 1, "missing smallest rejected");
	core::mem::forget(tables);
}

/// C07-O3: the snapshot record of the manifest is read back exactly - for every sequence number and
/// every creation time SnapshotInfo::decode(SnapshotInfo::encode(s)) == s, the record is 24 bytes, and
/// a record cut short (0..=23 bytes) is an error, never a panic.  (load_from_file decodes one such
/// record per registered snapshot; a field read back with another width or byte order would make a
/// manifest the store wrote unreadable or silently change the snapshot list.)
#[kani::proof]
#[kani::unwind(26)]
#[kani::stub(std::fmt::format, crate::verif_models::no_format)]
fn c07_snapshot_info_codec_roundtrip() {
	let seq: u64 = kani::any();
	let at: u128 = kani::any();
	let s = SnapshotInfo { seq_num: seq, created_at: at };
	let r = s.encode();
	let enc_ok = r.is_ok();
	assert!(enc_ok, "SnapshotInfo::encode failed");
	if let Ok(buf) = &r {
		assert!(buf.len() == 24, "manifest snapshot record has an unexpected size");
		let d = SnapshotInfo::decode(&buf[..]);
		let (dec_ok, dseq, dat) = match &d {
			Ok(x) => (true, x.seq_num, x.created_at),
			Err(_) => (false, 0, 0),
		};
		#[cfg(verif_replay)]
		println!("REPLAY SnapshotInfo seq={} created_at={} -> decoded ok={} seq={} created_at={}", seq, at, dec_ok, dseq, dat);
		assert!(dec_ok, "snapshot record written by encode is rejected by decode");
		assert!(dseq == seq && dat == at, "snapshot record changed in the round trip");
		let cut: usize = kani::any();
		kani::assume(cut < 24);
		let d2 = SnapshotInfo::decode(&buf[..cut]);
		let short_ok = d2.is_ok();
		core::mem::forget(d2);
		assert!(!short_ok, "a snapshot record cut short is accepted");
		kani::cover!(seq > u32::MAX as u64 && at > u64::MAX as u128, "fields above 32 / 64 bits");
		kani::cover!(cut == 23, "record cut one byte short");
		core::mem::forget(d);
	}
	core::mem::forget(r);
}
