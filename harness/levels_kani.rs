// C07: load-time validation of the manifest (src/levels/mod.rs).
use super::*;
use crate::sstable::table::verif_kani::mk_table;

/// C07-O1: every table layout a level >= 1 can reach is accepted at load time.  Tables of such a
/// level are ordered by KEY; each carries a sequence range smallest <= largest and the ranges of
/// different tables are unrelated (successive compactions interleave them).
#[kani::proof]
#[kani::unwind(5)]
#[kani::stub(std::fmt::format, crate::verif_models::no_format)]
fn c07_seq_validation_accepts_reachable_layouts() {
	let nt: usize = kani::any();
	kani::assume(nt >= 1 && nt <= 3);
	let lo: [u64; 3] = kani::any();
	let hi: [u64; 3] = kani::any();
	let level: u8 = kani::any();
	kani::assume(level >= 1);
	let keys: [[u8; 1]; 6] = [[1], [2], [3], [4], [5], [6]];
	let mut tables: Vec<Arc<Table>> = Vec::with_capacity(3);
	let mut i = 0;
	while i < nt {
		kani::assume(lo[i] >= 1 && lo[i] <= hi[i] && hi[i] < (1 << 56));
		tables.push(mk_table(i as u64 + 1, Some(&keys[2 * i]), Some(&keys[2 * i + 1]), (Some(lo[i]), Some(hi[i]))));
		i += 1;
	}
	let r = LevelManifest::validate_table_sequence_numbers(level, &tables);
	#[cfg(verif_replay)]
	println!("REPLAY validate level={} seq ranges lo={:?} hi={:?} nt={} -> ok={}", level, lo, hi, nt, r.is_ok());
	let ok = r.is_ok();
	core::mem::forget(r);
	assert!(ok, "a level layout the engine itself produces is rejected at load time (store cannot reopen)");
	kani::cover!(nt == 3 && hi[1] < lo[0] && hi[2] < lo[1], "sequence ranges decrease along the key order");
	kani::cover!(nt == 2 && lo[1] <= hi[0] && lo[0] <= hi[1], "sequence ranges of two tables overlap");
	core::mem::forget(tables);
}

/// C07-O1b (witness only): the per-table sanity part of the validator is still there - impossible
/// metadata (smallest > largest, one of the two missing) is rejected.  These are COVER witnesses, not
/// assertions: C07 does not demand the rejection, it only keeps O1 from being satisfied by a validator
/// that was emptied (an unsatisfied cover makes the check inconclusive, exit 2 - not a violation).
#[kani::proof]
#[kani::unwind(5)]
#[kani::stub(std::fmt::format, crate::verif_models::no_format)]
fn c07_seq_validation_rejects_impossible_tables() {
	let lo: u64 = kani::any();
	let hi: u64 = kani::any();
	let which: u8 = kani::any();
	kani::assume(which <= 2);
	let seqs = match which {
		0 => {
			kani::assume(lo > hi);
			(Some(lo), Some(hi))
		}
		1 => (None, Some(hi)),
		_ => (Some(lo), None),
	};
	let mut tables: Vec<Arc<Table>> = Vec::with_capacity(1);
	tables.push(mk_table(1, Some(&[1u8]), Some(&[2u8]), seqs));
	let r = LevelManifest::validate_table_sequence_numbers(1, &tables);
	let ok = r.is_ok();
	core::mem::forget(r);
	kani::cover!(!ok && which == 0, "smallest > largest rejected");
	kani::cover!(!ok && which == 1, "missing smallest rejected");
	core::mem::forget(tables);
}
